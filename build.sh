#!/bin/bash
# build.sh <outdir>: instrument /repo's working tree and build the simulator binary.
set -e
export GOFLAGS=-mod=mod GOPROXY=off GOSUMDB=off GOTOOLCHAIN=local
OUT=$1
REPO=${VERIF_REPO:-/repo}
V=$(cd "$(dirname "$0")" && pwd)
mkdir -p $V/.build
if [ ! -x $V/.build/instrument ] || [ $V/tools/instrument/main.go -nt $V/.build/instrument ]; then
  (cd $V/tools/instrument && go build -o $V/.build/instrument .) || exit 2
fi
rm -rf $OUT/gen $OUT/overlay.json
mkdir -p $OUT
$V/.build/instrument -repo $REPO -out $OUT -simsrc $V/sim > $OUT/instrument.log 2>&1 || { cat $OUT/instrument.log; exit 2; }
(cd $REPO && go1.26.8 test -c -vet=off -overlay $OUT/overlay.json -o $OUT/mrpsim.test ./cmd/mrp) || exit 2
