#!/bin/bash
# Builds the instrumenter from files on disk only (offline).
set -e
export GOFLAGS=-mod=mod GOPROXY=off GOSUMDB=off GOTOOLCHAIN=local
cd "$(dirname "$0")"
mkdir -p .build evidence replays
(cd tools/instrument && go build -o ../../.build/instrument .)
echo "setup ok"
