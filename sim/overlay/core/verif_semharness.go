package core

// Small accessors used by the simulator's semaphore harness (C12).  They give
// test code outside the package a way to build Metadata objects in a given
// state; nothing here is used by martian itself.

// VerifNewMetadata returns a metadata object whose cached state is as given:
// "" (nothing), "queued" (_jobinfo), "running" (_jobinfo,_log), "complete", "failed".
func VerifNewMetadata(name, state string) *Metadata {
	m := NewMetadata(name, "/nonexistent/"+name)
	VerifSetMetadataState(m, state)
	return m
}

func VerifSetMetadataState(m *Metadata, state string) {
	m.mutex.Lock()
	defer m.mutex.Unlock()
	m.contents = make(map[MetadataFileName]struct{})
	switch state {
	case "queued":
		m.contents[JobInfoFile] = struct{}{}
	case "running":
		m.contents[JobInfoFile] = struct{}{}
		m.contents[LogFile] = struct{}{}
	case "complete":
		m.contents[JobInfoFile] = struct{}{}
		m.contents[LogFile] = struct{}{}
		m.contents[CompleteFile] = struct{}{}
	case "failed":
		m.contents[JobInfoFile] = struct{}{}
		m.contents[Errors] = struct{}{}
	}
}
