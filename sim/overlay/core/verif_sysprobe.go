package core

// Simulator implementations of martian's operating-system probes.  The original
// functions are renamed verifOrig_<name> by the instrumenter and stay linked (so a
// signature change in the tree is a build error, not a silent mismatch).

import (
	"github.com/martian-lang/martian/martian/verifsim/vos"
	"golang.org/x/sys/unix"
)

var _ = []interface{}{
	(*MemInfo).verifOrig_Get, (*LoadAverage).verifOrig_Get, verifOrig_GetUserProcessCount,
	verifOrig_GetProcessTreeMemory, verifOrig_GetMaxProcs, verifOrig_CheckMaxVmem,
	verifOrig_CheckMinimalSpace, verifOrig_GetAvailableSpace, verifOrig_GetMountOptions,
}

func (m *MemInfo) Get() error {
	if !vos.Simulated() {
		return m.verifOrig_Get()
	}
	w := vos.Probe("meminfo")
	m.Total = w.MemTotalBytes
	m.Free = w.MemFreeBytes
	m.ActualFree = w.MemFreeBytes
	m.Used = m.Total - m.Free
	m.ActualUsed = m.Total - m.ActualFree
	return nil
}

func (la *LoadAverage) Get() error {
	if !vos.Simulated() {
		return la.verifOrig_Get()
	}
	w := vos.Probe("loadavg")
	la.One, la.Five, la.Fifteen = w.LoadOne, w.LoadOne, w.LoadOne
	return nil
}

func GetUserProcessCount() (int, error) {
	if !vos.Simulated() {
		return verifOrig_GetUserProcessCount()
	}
	return vos.Probe("userprocs").UserProcs, nil
}

func GetProcessTreeMemory(pid int, includeParent bool, io map[int]*IoAmount) (ObservedMemory, error) {
	if !vos.Simulated() {
		return verifOrig_GetProcessTreeMemory(pid, includeParent, io)
	}
	return ObservedMemory{}, nil
}

func GetMaxProcs() (*unix.Rlimit, error) {
	if !vos.Simulated() {
		return verifOrig_GetMaxProcs()
	}
	w := vos.Probe("rlimit")
	return &unix.Rlimit{Cur: w.RlimNprocCur, Max: w.RlimNprocMax}, nil
}

func CheckMaxVmem(amount uint64) uint64 {
	if !vos.Simulated() {
		return verifOrig_CheckMaxVmem(amount)
	}
	return 0
}

func CheckMinimalSpace(path string) error {
	if !vos.Simulated() {
		return verifOrig_CheckMinimalSpace(path)
	}
	w := vos.Probe("statfs")
	if w.DiskFreeBytes < PIPESTANCE_MIN_DISK && w.DiskFreeBytes != 0 {
		return &DiskSpaceError{Bytes: w.DiskFreeBytes, Inodes: w.DiskInodes, Message: "simulated: out of disk space"}
	}
	return nil
}

func GetAvailableSpace(path string) (bytes, inodes uint64, fstype string, err error) {
	if !vos.Simulated() {
		return verifOrig_GetAvailableSpace(path)
	}
	w := vos.Probe("statfs")
	return w.DiskFreeBytes, w.DiskInodes, "simfs", nil
}

func GetMountOptions(path string) (fstype, opts string, err error) {
	if !vos.Simulated() {
		return verifOrig_GetMountOptions(path)
	}
	return "simfs", "rw", nil
}

// ---- accessors for the simulator's oracles ----

func (f *Fork) VerifLabel() string     { return f.fqname }
// (relative to the scratch root: in the shuffled map orders the label is hashed, and the
// order must not depend on where the scratch directory lies)
func (m *Metadata) VerifLabel() string { return m.fqname + "|" + vos.Rel(m.finalPath) }
