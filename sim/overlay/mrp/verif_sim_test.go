package main

import (
	"testing"

	"github.com/martian-lang/martian/martian/verifsim/psim"
)

// TestPsim is the entry point of the simulator binary.  It hands cmd/mrp's real
// main function (renamed mrpMain by the instrumenter) to the simulator.
func TestPsim(t *testing.T) {
	psim.MrpMain = mrpMain
	psim.WorkerMain(t)
}
