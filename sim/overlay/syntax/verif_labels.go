package syntax

import "fmt"

// Stable labels for pointer-typed map keys (used by the simulator's ordered map
// iteration so that iteration order is a function of the seed, not of addresses).

func (c *CallStm) VerifLabel() string {
	if c == nil {
		return ""
	}
	return fmt.Sprintf("%s@%d:%d", c.Id, c.Node.Loc.Line, c.Node.Loc.Col)
}

func (s *SplitExp) VerifLabel() string {
	if s == nil {
		return ""
	}
	return fmt.Sprintf("split@%d:%d/%s", s.Node.Loc.Line, s.Node.Loc.Col, s.Call.VerifLabel())
}
