package util

import "github.com/martian-lang/martian/martian/verifsim/vos"

// VerifReset gives the package the state a fresh process would have.
func VerifReset() {
	signalHandler = sigHandler{}
	LOGGER = nil
	exeBasePath = ""
}

var _ = verifOrig_GetCgroupMemoryLimit
var _ = verifOrig_LogSysInfo

func GetCgroupMemoryLimit() (limit, softLimit, usage int64) {
	if !vos.Simulated() {
		return verifOrig_GetCgroupMemoryLimit()
	}
	return 0, 0, 0
}

func LogSysInfo() {
	if !vos.Simulated() {
		verifOrig_LogSysInfo()
	}
}
