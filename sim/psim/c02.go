package psim

import (
	"fmt"
)

// ---------------------------------------------------------------------------
// C02 across retries and restarts.  "No job of a call starts before every call
// whose outputs it consumes has finished successfully" is not limited to runs in
// which nothing goes wrong: after a failed job is retried in-process, and after a
// killed mrp is restarted, martian rebuilds its picture of who is done from the
// metadata on disk (states of forks and chunks, forks expanded at run time, chunk
// lists), and every mistake in that picture shows as a job started too early.
//
// A fault-free twin gives the dependency relation between fork directories (from
// the reference evaluator); then the same program is run with one interruption
// (kill, handled signal, power loss; restart) or with one job failing once
// (transient: retried in-process; hard: mrp exits, restart).  Oracle, over all
// attempts of all jobs of all incarnations: when a job starts, every fork it
// depends on has a completed final job (join, or the only chunk) - and within a
// fork a completed split precedes every chunk, and completed chunks (all that the
// split defined) precede the join.
// ---------------------------------------------------------------------------

func c02Restart(c *Ctx) { restartFamily(c, "C02") }

// restartFamily serves C02 (order of jobs) and C01 (arguments of jobs) across retries
// and restarts: for C01 the oracle is that every attempt of every job, in every
// incarnation, is given what its counterpart in the fault-free twin was given (files by
// content), that every file named in its arguments exists, and that the chunks of a
// fork are given the definitions of the split attempt that completed.
func restartFamily(c *Ctx, focus string) {
	gcfg := swarmGen(c.Plan, c.thorough())
	gcfg.Preflight = c.Plan.Draw(2) == 0
	gcfg.Splits = true
	gcfg.ChunkFiles = focus == "C01"
	prog := Generate(c.Plan, gcfg)
	family := "generated"
	sel := c.Plan.Draw(8)
	if focus == "C01" && sel < 2 && c.Plan.Draw(2) == 0 {
		sel = 4 // more generated programs (splits handing files to their chunks)
	}
	switch sel {
	case 5:
		// calls disabled per element of a mapped call, by flags made at run time
		prog = templateMixedFlagsProg(c.Plan)
		family = "mixedflags"
	case 6:
		prog = templateDisabledProg(c.Plan)
		family = "disabled"
	case 7:
		prog = templatePerElementDisabledProg(c.Plan)
		family = "per-element-disabled"
	case 0, 1:
		prog = templateNestedProg(c.Plan)
		family = "nested"
	case 2:
		prog = templateForkOrderProg(c.Plan)
		family = "forkorder"
	case 3:
		prog = templateChunksProg(c.Plan)
		family = "chunks"
	}
	c.Res.Probes["restart-family:"+family]++
	fcfg := &FCfg{MaxLen: 2 + c.Plan.Draw(2), MaxChunks: 1 + c.Plan.Draw(4), Salt: fmt.Sprintf("c02r%d", c.Plan.Draw(4000))}
	retries := []int{0, 2}[c.Plan.Draw(2)]
	flags := append(baseFlags(c.Plan), "--vdrmode=disable", fmt.Sprintf("--autoretry=%d", retries))
	slow := map[string]string{}
	mk := func() *RunCfg {
		cfg := &RunCfg{Prog: prog, FCfg: fcfg, MaxSteps: 80000, Flags: flags}
		cfg.JobFaults = map[string]string{}
		for k, v := range slow {
			cfg.JobFaults[k] = v
		}
		return cfg
	}
	base := mk()
	swarmSched(c.Plan, base)
	twin := c.RunOnce(base, nil)
	c.Res.Shape = progShape(prog)
	c.Res.Class = "restart-twin-" + twin.Class()
	if twin.Class() != "complete" || len(twin.Panics) > 0 || len(twin.Jobs) < 2 {
		return
	}
	twinArgs := map[string]string{}
	for _, j := range twin.Jobs {
		if j.Args != nil {
			twinArgs[j.Key()+":"+j.Phase] = Canon(twin.normFiles(j.Args))
		}
	}
	ev, _ := Evaluate(prog, twin.Jobs)
	if ev.Rejected != "" || ev.Incomplete || len(ev.Problems) > 0 || ev.Ambiguous > 0 {
		c.Res.Class = "restart-twin-not-explained"
		return
	}
	// the relation between fork directories
	forks := map[string]*forkDeps{}
	for _, in := range ev.Insts {
		if in.Group == nil {
			continue
		}
		k := in.Group.Node + "\x00" + in.Group.Fork
		fd := forks[k]
		if fd == nil {
			fd = &forkDeps{split: in.Stage.Split, index: in.Index}
			forks[k] = fd
		}
		for _, d := range in.Deps {
			if d.Group != nil {
				fd.deps = append(fd.deps, forkRef{d.Group.Node, d.Group.Fork, d.Stage.Split, d.Index})
			}
		}
	}
	// one or two producers are slow, so that interruptions and failures fall
	// between the completion of one dependency and that of another
	var stageJobs []*JobRec
	for _, j := range twin.Jobs {
		stageJobs = append(stageJobs, j)
	}
	// (preferably forks of mapped calls other than the first one: the first fork is
	// the one a freshly built node graph has before its forks are restored)
	firstFork := map[string]string{}
	for _, j := range twin.Jobs {
		if f, ok := firstFork[j.Node]; !ok || j.Fork < f {
			firstFork[j.Node] = j.Fork
		}
	}
	var later []*JobRec
	for _, j := range twin.Jobs {
		if j.Fork != firstFork[j.Node] {
			later = append(later, j)
		}
	}
	for i := 0; i < 1+c.Plan.Draw(2); i++ {
		pool := stageJobs
		if len(later) > 0 && c.Plan.Draw(3) > 0 {
			pool = later
		}
		j := pool[c.Plan.Draw(len(pool))]
		slow[j.Key()+":"+j.Phase+"#*"] = "slow"
	}
	gates := twin.Mrp.Gates
	nruns := 3
	if c.thorough() {
		nruns = 10
	}
	c.Res.Class = "restart-checked"
	c.Res.Nontrivial = true
	for i := 0; i < nruns; i++ {
		cfg := mk()
		cfg.MaxSteps = 150000
		cfg.WMrp, cfg.WJob, cfg.WAux, cfg.WTime = base.WMrp, base.WJob, base.WAux, base.WTime
		cfg.MapMode, cfg.MapSalt = base.MapMode, base.MapSalt
		desc := ""
		if c.Plan.Draw(3) > 0 && !(focus == "C01" && c.Plan.Draw(2) == 0) {
			// the slow jobs stretch the run: sample the gate from a wider range
			at := 1 + c.Plan.Draw(gates*3)
			kind := []string{"kill", "kill", "sigterm", "sigint", "powerloss"}[c.Plan.Draw(5)]
			cfg.Crashes = []CrashSpec{{Inc: 1, AtGate: at, Kind: kind}}
			cfg.Restarts = 1
			if c.Plan.Draw(2) == 0 {
				cfg.QuickRestart = 1 + c.Plan.Draw(12)
			}
			desc = fmt.Sprintf("mrp interrupted (%s) at gate %d and restarted", kind, at)
			c.Res.Probes["restart-runs-with-interruption"]++
		} else {
			j := twin.Jobs[c.Plan.Draw(len(twin.Jobs))]
			f := []string{"transient-error", "late-transient-error", "die-signal", "stage-error", "late-error"}[c.Plan.Draw(5)]
			if focus == "C02" && retries > 0 && c.Plan.Draw(3) == 0 {
				// an attempt goes silent, is given up after the heartbeat timeout and
				// retried - and then finishes: its late completion notice is not the
				// completion of the job
				var mon []*JobRec
				for _, s := range twin.Jobs {
					if s.Monitor {
						mon = append(mon, s)
					}
				}
				var sj []*JobRec
				for _, s := range mon {
					if s.Phase != "main" {
						sj = append(sj, s)
					}
				}
				if len(sj) > 0 && c.Plan.Draw(3) > 0 {
					mon = sj
				}
				if len(mon) > 0 {
					j = mon[c.Plan.Draw(len(mon))]
					f = []string{"stale-complete", "stale-complete", "stale-errors"}[c.Plan.Draw(3)]
					// the replacement takes its time: the old attempt is back first
					cfg.JobFaults[j.Key()+":"+j.Phase+"#2"] = "slow"
					c.Res.Probes["restart-runs-with-stale-attempt"]++
				}
			}
			if focus == "C01" && c.Plan.Draw(2) == 0 {
				// a split that fails after it has written its chunk definitions: the
				// repeated split's definitions are the ones the chunks must get
				var splits []*JobRec
				for _, s := range twin.Jobs {
					if s.Phase == "split" {
						splits = append(splits, s)
					}
				}
				if len(splits) > 0 {
					j = splits[c.Plan.Draw(len(splits))]
					f = []string{"late-transient-error", "late-error"}[c.Plan.Draw(2)]
				}
			}
			cfg.JobFaults[j.Key()+":"+j.Phase+"#1"] = f
			cfg.Restarts = 1
			desc = fmt.Sprintf("%s of %s (%s), first attempt only, --autoretry=%d, restart if mrp exits", f, j.Key(), j.Phase, retries)
			c.Res.Probes["restart-runs-with-job-failure"]++
		}
		r := c.RunOnce(cfg, nil)
		if len(r.Panics) > 0 {
			c.Res.Violations = append(c.Res.Violations, Violation{"OBS", "mrp-panic", firstLines(r.Panics[0], 14), r.Steps})
			continue
		}
		if r.Inc > 1 {
			c.Res.Probes["restart-runs-restarted"]++
		}
		var vs []Violation
		if focus == "C02" {
			vs = checkOrderAcrossAttempts(r, forks, desc)
		} else {
			vs = checkArgsAcrossAttempts(r, twinArgs, desc)
		}
		c.Res.Probes["jobs-checked-across-attempts"] += len(r.Jobs)
		if len(vs) > 0 || c.Keep || c.Res.Sample == nil {
			s := describeRun(r, true)
			s["fault"] = desc
			c.Res.Sample = s
		}
		if len(vs) > 0 {
			c.Res.Violations = append(c.Res.Violations, vs...)
			return
		}
	}
}

type forkDeps struct {
	split bool
	deps  []forkRef
	index string
}

type forkRef struct {
	node, fork string
	split      bool
	index      string
}

// checkOrderAcrossAttempts is the C02 oracle over a history with several attempts
// and incarnations.
func checkOrderAcrossAttempts(r *Run, forks map[string]*forkDeps, desc string) []Violation {
	var out []Violation
	add := func(oracle, msg string) {
		if len(out) < 3 {
			out = append(out, Violation{"C02", oracle, desc + ": " + msg, r.Steps})
		}
	}
	byFork := map[string][]*JobRec{}
	for _, j := range r.Jobs {
		k := j.Node + "\x00" + j.Fork
		byFork[k] = append(byFork[k], j)
	}
	// doneBefore: the fork's final job has a completed attempt which ended before seq
	doneBefore := func(node, fork string, split bool, seq int) bool {
		final := "main"
		if split {
			final = "join"
		}
		for _, j := range byFork[node+"\x00"+fork] {
			if j.Phase == final && j.Outcome == "complete" && !j.Stale && j.EndSeq > 0 && j.EndSeq < seq {
				return true
			}
		}
		return false
	}
	for k, js := range byFork {
		fd := forks[k]
		if fd == nil {
			r.Probes["fork-unknown-to-the-twin"]++
			continue
		}
		for _, j := range js {
			for _, d := range fd.deps {
				if !doneBefore(d.node, d.fork, d.split, j.StartSeq) {
					add("started-before-dependency-across-attempts", fmt.Sprintf(
						"job %s (%s) of %s, incarnation %d, started at seq %d although its dependency %s (%s/%s) had no completed %s before that",
						j.Key(), j.Phase, fd.index, j.Inc, j.StartSeq, d.index, d.node, d.fork, map[bool]string{true: "join", false: "job"}[d.split]))
				}
			}
			if !fd.split {
				continue
			}
			// the last split completed before this job started
			var sp *JobRec
			for _, s := range js {
				if s.Phase == "split" && s.Outcome == "complete" && !s.Stale && s.EndSeq > 0 && s.EndSeq < j.StartSeq {
					if sp == nil || s.EndSeq > sp.EndSeq {
						sp = s
					}
				}
			}
			switch j.Phase {
			case "main":
				if sp == nil {
					add("chunk-before-split-across-attempts", fmt.Sprintf("chunk %d of %s (%s), incarnation %d, started at seq %d before any split of that fork had completed", j.Chunk, j.Key(), fd.index, j.Inc, j.StartSeq))
				}
			case "join":
				if sp == nil {
					add("join-before-split-across-attempts", fmt.Sprintf("join of %s (%s), incarnation %d, started at seq %d before any split of that fork had completed", j.Key(), fd.index, j.Inc, j.StartSeq))
					continue
				}
				sd, _ := sp.Outs.(map[string]interface{})
				defs, _ := sd["chunks"].([]map[string]interface{})
				for ci := range defs {
					ok := false
					for _, m := range js {
						if m.Phase == "main" && m.Chunk == ci && m.Outcome == "complete" && !m.Stale && m.EndSeq > 0 && m.EndSeq < j.StartSeq {
							ok = true
						}
					}
					if !ok {
						add("join-before-chunk-across-attempts", fmt.Sprintf("join of %s (%s), incarnation %d, started at seq %d although chunk %d of %d had no completed attempt before that", j.Key(), fd.index, j.Inc, j.StartSeq, ci, len(defs)))
					}
				}
			}
		}
	}
	return out
}

// checkArgsAcrossAttempts is the C01 oracle over a history with several attempts and
// incarnations (no VDR in these runs: a file named in an argument has to be there).
func checkArgsAcrossAttempts(r *Run, twinArgs map[string]string, desc string) []Violation {
	var out []Violation
	for _, j := range r.Jobs {
		if j.Args == nil || j.Stale {
			continue
		}
		k := j.Key() + ":" + j.Phase
		if len(j.MissingFiles) > 0 {
			out = append(out, Violation{"C01", "job-given-a-file-that-does-not-exist", fmt.Sprintf("%s: job %s of incarnation %d: files named in its arguments are missing or changed: %v", desc, k, j.Inc, j.MissingFiles), r.Steps})
			break
		}
		if want, ok := twinArgs[k]; ok {
			if got := Canon(r.normFiles(j.Args)); got != want {
				out = append(out, Violation{"C01", "arguments-differ-across-attempts", fmt.Sprintf("%s: job %s of incarnation %d received %s, in the fault-free run %s", desc, k, j.Inc, got, want), r.Steps})
				break
			}
		}
	}
	return out
}

// templatePerElementDisabledProg: a pipeline map-called over an array of structs that a
// stage makes at run time; inside it a call is disabled per element by a flag of the
// element, a second call consumes the first one's result, and a stage outside consumes the
// merged results of all elements.
func templatePerElementDisabledProg(plan *Tape) *Prog {
	p := &Prog{}
	intT, boolT := Ty{Base: "int"}, Ty{Base: "bool"}
	ref := func(call string, path ...string) *Expr { return &Expr{Kind: ERef, Call: call, Path: path} }
	self := func(path ...string) *Expr { return &Expr{Kind: ERef, Self: true, Path: path} }
	p.Structs = []*StructDef{{Name: "ITEM", Fields: []Field{{"v", intT}, {"skip", boolT}}}}
	itemT := Ty{Base: "ITEM"}
	work := &StageDef{Name: "WORK", SrcKind: "comp", Ins: []Field{{"v", intT}}, Outs: []Field{{"y", intT}}}
	if plan.Draw(2) == 0 {
		work.Split = true
		work.ChunkIns = []Field{{"c0", intT}}
		work.ChunkOuts = []Field{{"part", intT}}
	}
	p.Stages = []*StageDef{
		{Name: "SRC", SrcKind: "comp", Ins: []Field{{"n", intT}}, Outs: []Field{{"items", itemT.ArrayOf()}}},
		work,
		{Name: "LAST", SrcKind: "comp", Ins: []Field{{"y", intT}}, Outs: []Field{{"z", intT}}},
		{Name: "USE", SrcKind: "comp", Ins: []Field{{"zs", intT.ArrayOf()}}, Outs: []Field{{"s", intT}}},
	}
	sub := &PipelineDef{Name: "SUB", Ins: []Field{{"item", itemT}}, Outs: []Field{{"z", intT}}}
	sub.Calls = []*CallDef{
		{Callee: "WORK", Id: "WORK", Binds: []Bind{{"v", self("item", "v"), false}}, Disabled: self("item", "skip")},
		{Callee: "LAST", Id: "LAST", Binds: []Bind{{"y", ref("WORK", "y"), false}}},
	}
	sub.Ret = []Bind{{"z", ref("LAST", "z"), false}}
	top := &PipelineDef{Name: "TOPE", Ins: []Field{{"n", intT}}, Outs: []Field{{"zs", intT.ArrayOf()}, {"s", intT}}}
	top.Calls = []*CallDef{
		{Callee: "SRC", Id: "SRC", Binds: []Bind{{"n", self("n"), false}}},
		{Callee: "SUB", Id: "SUB", Mapped: true, Binds: []Bind{{"item", ref("SRC", "items"), true}}},
		{Callee: "USE", Id: "USE", Binds: []Bind{{"zs", ref("SUB", "z"), false}}},
	}
	top.Ret = []Bind{{"zs", ref("SUB", "z"), false}, {"s", ref("USE", "s"), false}}
	p.Pipelines = []*PipelineDef{sub, top}
	p.Top = &CallDef{Callee: "TOPE", Id: "TOPE", Binds: []Bind{{"n", &Expr{Kind: ELit, Val: int64(plan.Draw(10000)), T: intT}, false}}}
	return p
}
