package psim

import (
	"path/filepath"
	"fmt"
	"os"
	"path"
	"strings"

	"github.com/martian-lang/martian/martian/verifsim/vos"
)

// ---------------------------------------------------------------------------
// C05: an interrupted pipestance resumes to the same result, not redoing
// finished work.  Fault enumeration over sampled bases: a fault-free twin run
// yields the reference outputs and the number of simulator-visible points of the
// mrp incarnation; then mrp is interrupted at sampled (thorough: many) of those
// points by SIGKILL / power loss / SIGTERM / SIGINT / a torn non-atomic write,
// restarted by the operator, and the final state is compared with the twin's.
// ---------------------------------------------------------------------------

func lastCrashSeq(r *Run) int {
	s := 0
	for _, o := range r.Ops {
		if o.Kind == "crash" || o.Kind == "signal" {
			s = o.Seq
		}
	}
	return s
}

// lastRestartSeq is the sequence number at which the last incarnation started.
func lastRestartSeq(r *Run) int {
	s := 0
	for _, o := range r.Ops {
		if o.Kind == "mrp-start" {
			s = o.Seq
		}
	}
	return s
}

func crashSeq(r *Run) int {
	for _, o := range r.Ops {
		if o.Kind == "crash" || o.Kind == "signal" {
			return o.Seq
		}
	}
	return 0
}

// checkResume evaluates the C05 oracles on an interrupted-and-restarted run.
func checkResume(r *Run, twinOuts string, spec []CrashSpec) []Violation {
	var out []Violation
	add := func(oracle, msg string) {
		out = append(out, Violation{"C05", oracle, msg, r.Steps})
	}
	desc := fmt.Sprintf("%v", spec)
	// (4) a handled signal leaves the pipestance unlocked
	for i, p := range r.Mrps {
		if i < len(spec) && (spec[i].Kind == "sigterm" || spec[i].Kind == "sigint" || spec[i].Kind == "sigterm-twice") && p.Exited {
			r.Probes["signal-exit-checked"]++
		}
	}
	// (1) bounded liveness: the last incarnation completes
	cls := r.Class()
	if cls == "step-budget" {
		r.Probes["step-budget-exhausted"]++
		return out
	}
	if cls != "complete" {
		// Was the first interruption inside Runtime.InvokePipeline, i.e. before the
		// last top-level metadata file (_timestamp) of a new pipestance was written?
		invoked := false
		for _, ev := range vos.W.Events {
			if ev.Path == "ps/_timestamp" && ev.Op == "write" && ev.Err == "" && ev.Seq < crashSeq(r) {
				invoked = true
			}
		}
		if !invoked {
			add("resume-failed-after-interrupted-invoke", fmt.Sprintf("after %s (before the new pipestance's top-level metadata was completely written) the restarted mrp ended as %q (exit codes %v): %s",
				desc, cls, r.ExitCodes, lastLines(r.outBuf.String(), 6)))
			return out
		}
		if r.Cfg.JobMode != "" && r.Cfg.JobMode != "local" {
			// cluster mode: a submission interrupted between the removal of the
			// _queued_locally sentinel and the recording of the job id leaves a job
			// which is "queued" for ever (nothing to ask the queue about)
			stuck := ""
			filepath.Walk(r.PsDir, func(p string, info os.FileInfo, err error) error {
				if err == nil && info != nil && !info.IsDir() && info.Name() == "_jobscript" {
					d := path.Dir(p)
					has := func(n string) bool { _, e := os.Stat(path.Join(d, n)); return e == nil }
					if !has("_jobid") && !has("_queued_locally") && !has("_complete") && !has("_errors") && !has("_log") {
						stuck = strings.TrimPrefix(d, r.PsDir+"/")
					}
				}
				return nil
			})
			if w := r.SubWins["ps/"+stuck]; stuck != "" && (w == nil || w.otherGates > 0) {
				// not the known window (sentinel removed, then at once the submit
				// command): the job lost its sentinel earlier, or never had a
				// submission under way
				n := -1
				if w != nil {
					n = w.otherGates
				}
				add("cluster-job-lost-before-submission", fmt.Sprintf("after %s the restarted pipestance never finishes: %s has a job script but no job id, no sentinel and no sign of life, and its submit command was not what followed the removal of the sentinel (%d other steps of the submitting task in between; ended as %q)",
					desc, stuck, n, cls))
				return out
			}
			if stuck != "" {
				add("cluster-submission-interrupted-before-job-id", fmt.Sprintf("after %s the restarted pipestance never finishes: %s has a job script but no job id, no sentinel and no sign of life (ended as %q)",
					desc, stuck, cls))
				return out
			}
		}
		// the operator restarted at once, while jobs hit by the same signal were still
		// dying: each of them reports "Caught signal" to the NEW mrp, which retries
		// (it is a transient error) - until more of them have died under its eyes
		// than it has retries (default 2).  Restarting faster than the old jobs die,
		// with more of them than retries, is the harness's doing, not an instant of
		// interruption: such runs are not judged.
		late := 0
		for _, j := range r.Jobs {
			if j.Outcome != "aborted" || j.Inc >= r.Inc {
				continue
			}
			for _, o := range r.Ops {
				if o.Kind == "mrp-start" && containsInc2(o.Detail, j.Inc+1) && j.EndSeq > o.Seq {
					late++
				}
			}
		}
		if cls == "failed" && late > 2 && strings.Contains(r.outBuf.String(), "Caught signal") {
			r.Probes["more-late-dying-orphans-than-retries"]++
			return out
		}
		add("resume-did-not-complete", fmt.Sprintf("after %s the restarted pipestance ended as %q (exit codes %v): %s",
			desc, cls, r.ExitCodes, lastLines(r.outBuf.String(), 10)))
		return out
	}
	// (2) same outputs as the uninterrupted twin
	act, err := r.ReadTopOuts()
	if err != nil {
		add("outs-missing", err.Error())
	} else if got := Canon(r.normFiles(act)); got != twinOuts {
		// was an incarnation interrupted after post-processing had begun to move
		// output files into outs/ ?
		oracle := "outs-differ"
		for _, ev := range vos.W.Events {
			if ev.PKind == "mrp" && ev.Op == "rename" && strings.HasPrefix(ev.Path2, "ps/outs/") && ev.Seq < lastRestartSeq(r) {
				oracle = "outs-differ-after-interrupted-postprocess"
			}
		}
		add(oracle, fmt.Sprintf("after %s: final outputs %s differ from the uninterrupted run's %s", desc, got, twinOuts))
	}
	// (3) completed work is not redone
	cs := crashSeq(r)
	for _, j := range r.Jobs {
		if j.Outcome != "complete" || j.EndSeq == 0 || j.EndSeq >= cs {
			continue
		}
		for _, k := range r.Jobs {
			if k.Inc > j.Inc && k.Id() == j.Id() {
				// did the job manager's _queued_locally marker of the completed job
				// still exist when mrp was interrupted?
				oracle := "completed-job-reexecuted"
				ql := strings.TrimPrefix(j.MetaPath, r.Root+"/") + "/_queued_locally"
				state := ""
				for _, ev := range vos.W.Events {
					if ev.Path == ql && ev.Seq < cs && ev.Err == "" {
						state = ev.Op
					}
				}
				if state == "write" {
					oracle = "completed-job-reexecuted-stale-queued-locally"
				}
				add(oracle, fmt.Sprintf("after %s: %s (%s) had recorded completion at seq %d before the interruption (seq %d) but was executed again by incarnation %d",
					desc, j.Key(), j.Phase, j.EndSeq, cs, k.Inc))
			}
		}
	}
	// (5) within one incarnation nothing runs twice - unless that incarnation retried
	// failed jobs in-process ("Reattaching" more often than there were restarts: jobs
	// lost in a power loss are found by the queue check and retried): a retry runs
	// jobs again by design, and while it re-attaches, a submission still under way in
	// the old job manager's goroutine can be reset and repeated (observation O-C05-a)
	seen := map[string]bool{}
	if strings.Count(r.outBuf.String(), "Reattaching in ") > r.Inc-1 {
		r.Probes["in-process-retry-in-a-restarted-incarnation"]++
		return out
	}
	for _, j := range r.Jobs {
		k := fmt.Sprintf("%d|%s", j.Inc, j.Id())
		if seen[k] {
			add("executed-twice-in-incarnation", fmt.Sprintf("after %s: %s (%s) executed twice by incarnation %d", desc, j.Key(), j.Phase, j.Inc))
		}
		seen[k] = true
	}
	return out
}

// lockAfterSignal is a step hook: when an incarnation that got a handled signal
// has exited, the lock file must be gone.
func lockHook(r *Run) func() {
	checked := map[int]bool{}
	return func() {
		for i, p := range r.Mrps {
			if !p.Exited || checked[i] {
				continue
			}
			checked[i] = true
			sig := false
			for _, o := range r.Ops {
				if o.Kind == "signal" && containsInc(o.Detail, i+1) {
					sig = true
				}
			}
			if !sig {
				continue
			}
			r.Probes["handled-signal-exit"]++
			if _, err := os.Stat(path.Join(r.PsDir, "_lock")); err == nil {
				// was the lock file written only after the signal had been delivered?
				oracle := "lock-left-after-signal"
				sigSeq, lockSeq := 0, 0
				for _, o := range r.Ops {
					if o.Kind == "signal" && containsInc(o.Detail, i+1) {
						sigSeq = o.Seq
					}
				}
				for _, ev := range vos.W.Events {
					if ev.Path == "ps/_lock" && ev.Op == "write" && ev.Pid == p.Pid {
						lockSeq = ev.Seq
					}
				}
				if lockSeq > sigSeq {
					oracle = "lock-written-after-signal-was-handled"
				}
				r.violate("C05", oracle, fmt.Sprintf(
					"mrp#%d exited with code %d after a handled signal but _lock is still present", i+1, p.ExitCode))
			}
		}
	}
}

func containsInc2(detail string, inc int) bool {
	return indexOf(detail, fmt.Sprintf("incarnation %d ", inc)) >= 0
}

func containsInc(detail string, inc int) bool {
	return len(detail) > 0 && (indexOf(detail, fmt.Sprintf("mrp#%d ", inc)) >= 0)
}

func indexOf(s, sub string) int {
	for i := 0; i+len(sub) <= len(s); i++ {
		if s[i:i+len(sub)] == sub {
			return i
		}
	}
	return -1
}

func c05Case(c *Ctx) {
	gcfg := swarmGen(c.Plan, c.thorough())
	gcfg.Files = c.Plan.Draw(3) == 0
	bigChunks := c.Plan.Draw(4) == 0
	if bigChunks {
		gcfg.Splits = true
	}
	prog := Generate(c.Plan, gcfg)
	forkTemplate := c.Plan.Draw(5) == 0
	if forkTemplate {
		// map calls of a splitting stage over collections that only exist at run
		// time (forks are created, renamed and re-created from disk on restart)
		prog = templateForkOrderProg(c.Plan)
		if u := prog.Stage("USE"); !u.Split && c.Plan.Draw(4) > 0 {
			u.Split = true
			u.ChunkIns = []Field{{"c0", Ty{Base: "int"}}}
			u.ChunkOuts = []Field{{"part", Ty{Base: "int"}}}
		}
		c.Res.Probes["fork-template-base"]++
	}
	nestedTemplate := !forkTemplate && (c.Plan.Draw(8) == 0 || os.Getenv("VERIF_C05") == "nested")
	if nestedTemplate {
		// a map call inside a map-called pipeline, both over collections made at run
		// time (rows of different lengths, empty ones among them); a restart rebuilds
		// the forks of both levels from what is on disk, while a second, slow producer
		// of the inner calls' arguments may still be running
		prog = templateNestedProg(c.Plan)
		c.Res.Probes["nested-template-base"]++
	}
	vdr := []string{"disable", "rolling", "post", "strict"}[c.Plan.Draw(4)]
	fcfg := &FCfg{MaxLen: 1 + c.Plan.Draw(3), MaxChunks: c.Plan.Draw(4), Salt: "c05"}
	if nestedTemplate {
		fcfg.MaxLen = 2 + c.Plan.Draw(2)
		fcfg.MaxChunks = 1 + c.Plan.Draw(2)
		fcfg.Salt = fmt.Sprintf("c05n%d", c.Plan.Draw(4000))
	}
	if forkTemplate {
		fcfg.MaxChunks = 1 + c.Plan.Draw(3)
		fcfg.Salt = fmt.Sprintf("c05-%d", c.Plan.Draw(1000))
	}
	if bigChunks {
		// chunk counts around the decimal-width boundary of chunk directory names
		fcfg.MaxChunks = 9 + c.Plan.Draw(4)
	}
	flags := append(baseFlags(c.Plan), "--vdrmode="+vdr)
	if c.Plan.Draw(6) == 0 {
		// metadata archived at the end; an interruption around the archiving leaves
		// the restarted mrp to unpack it (or to find it half-written)
		flags = append(flags, "--zip")
		c.Res.Probes["bases-with-zip"]++
	}
	// some bases run in cluster mode: the jobs are not children of mrp, survive its
	// death and keep running (and finishing) while it is down and after its restart
	clusterMode := c.Plan.Draw(6) == 0 || os.Getenv("VERIF_C05_CLUSTER") != ""
	if clusterMode {
		flags = append(flags, fmt.Sprintf("--maxjobs=%d", 1+c.Plan.Draw(4)))
		c.Res.Probes["cluster-mode-bases"]++
	}
	mk := func() *RunCfg {
		cfg := &RunCfg{Prog: prog, FCfg: fcfg, MaxSteps: 80000, Flags: flags}
		if clusterMode {
			cfg.JobMode = "sge"
		}
		if nestedTemplate {
			cfg.JobFaults = map[string]string{"TOPX/SLOW/fork0/chnk0:main#*": "slow"}
		}
		return cfg
	}
	base := mk()
	swarmSched(c.Plan, base)
	invokeGates := 0
	twin := c.RunOnce(base, func(r *Run) {
		r.StepHooks = append(r.StepHooks, func() {
			if invokeGates == 0 && r.Mrp != nil {
				if _, err := os.Stat(path.Join(r.PsDir, "_timestamp")); err == nil {
					invokeGates = r.Mrp.Gates
				}
			}
		})
	})
	c.Res.Shape = progShape(prog)
	c.Res.Class = "twin-" + twin.Class()
	if twin.Class() != "complete" || len(twin.Panics) > 0 {
		// the base is not usable (rejected program, or a known fork-machinery defect)
		c.Res.Notes = append(c.Res.Notes, "base run unusable: "+twin.Class())
		return
	}
	actTwin, err := twin.ReadTopOuts()
	if err != nil {
		c.Res.Notes = append(c.Res.Notes, "base run has no outs")
		return
	}
	twinOuts := Canon(twin.normFiles(actTwin))
	twinArgs := map[string]string{}
	for _, j := range twin.Jobs {
		if j.Args != nil {
			twinArgs[j.Key()+":"+j.Phase] = Canon(twin.normFiles(j.Args))
		}
	}
	gates := twin.Mrp.Gates
	npoints := 4
	if c.thorough() {
		npoints = 24
	}
	kinds := []string{"kill", "kill", "kill", "sigterm", "sigterm", "sigint", "powerloss", "powerloss", "torn", "kill", "sigterm-twice"}
	c.Res.Nontrivial = len(twin.Jobs) >= 2
	for i := 0; i < npoints; i++ {
		cfg := mk()
		cfg.WMrp, cfg.WJob, cfg.WAux, cfg.WTime = base.WMrp, base.WJob, base.WAux, base.WTime
		cfg.MapMode, cfg.MapSalt = base.MapMode, base.MapSalt
		// most interruption points are placed after the (short) window in which
		// the new pipestance's top-level metadata is written (known finding
		// KF-C05-1 makes every point inside it fail the same way)
		at := c.Plan.Draw(gates + 1)
		if c.Plan.Draw(8) != 0 && invokeGates < gates {
			at = invokeGates + 1 + c.Plan.Draw(gates-invokeGates)
		}
		spec := []CrashSpec{{Inc: 1, AtGate: at, Kind: kinds[c.Plan.Draw(len(kinds))]}}
		cfg.Restarts = 1
		if c.Plan.Draw(5) == 0 {
			// a second interruption, during recovery
			spec = append(spec, CrashSpec{Inc: 2, AtGate: c.Plan.Draw(gates/2 + 1), Kind: kinds[c.Plan.Draw(len(kinds))]})
			cfg.Restarts = 2
		}
		cfg.Crashes = spec
		if c.Plan.Draw(2) == 0 {
			// the operator is quick: jobs orphaned by the interruption are still
			// reacting to it (or still running) when the next mrp starts
			cfg.QuickRestart = 1 + c.Plan.Draw(12)
			c.Res.Probes["quick-restarts"]++
		}
		r := c.RunOnce(cfg, func(r *Run) { r.StepHooks = append(r.StepHooks, lockHook(r)) })
		if len(r.Ops) <= 1 && r.Class() == "complete" && r.Inc == 1 {
			// the interruption point was never reached (run finished earlier)
			c.Res.Probes["crash-point-not-reached"]++
			continue
		}
		c.Res.Probes["interrupted-runs"]++
		if r.Inc > 1 {
			c.Res.Probes["restarts"] += r.Inc - 1
		}
		vs := checkResume(r, twinOuts, spec)
		if len(vs) == 0 && r.Class() == "complete" {
			// (6) whatever ran, before or after the interruption, was given what the
			// uninterrupted run gave it
			for _, o := range r.Jobs {
				if o.Args == nil {
					continue
				}
				k := o.Key() + ":" + o.Phase
				if want, ok := twinArgs[k]; ok {
					if got := Canon(r.normFiles(o.Args)); got != want {
						vs = append(vs, Violation{"C05", "job-received-other-arguments-after-resume",
							fmt.Sprintf("after %v: job %s of incarnation %d received %s, in the uninterrupted run %s", spec, k, o.Inc, got, want), r.Steps})
						break
					}
				}
			}
		}
		if len(vs) > 0 || c.Keep {
			c.Res.Violations = append(c.Res.Violations, vs...)
			s := describeRun(r, true)
			s["crash_plan"] = spec
			s["twin_outs"] = twinOuts
			c.Res.Sample = s
			if len(vs) > 0 {
				break
			}
		}
		if c.Res.Sample == nil {
			s := describeRun(r, true)
			s["crash_plan"] = spec
			c.Res.Sample = s
		}
	}
	if c.Res.Class == "twin-complete" {
		c.Res.Class = "checked"
	}
}

func init() {
	Profiles["C05"] = c05Case
}
