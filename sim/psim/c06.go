package psim

import (
	"fmt"
	"os"
	"syscall"
	"strings"

	"github.com/martian-lang/martian/martian/verifsim/vos"
)

// ---------------------------------------------------------------------------
// C06: a failing job fails the pipestance, blocks only its dependents, is
// reported; after the fault is removed a restart re-executes only the failed
// work.  Fault enumeration over sampled bases: a fault-free twin gives the job
// list, the dependency relation (from the reference evaluator) and the reference
// outputs; then one job at a time is made to fail in one of the manifestations.
// ---------------------------------------------------------------------------

type manifest struct {
	name      string
	class     string // "hard" (non-transient), "transient", "benign"
	phases    string // which phases it applies to: s=split m=main j=join
	needSplit int    // 0 any, 1 only non-split stages' main, 2 only split
}

var manifestations = []manifest{
	{"stage-error", "hard", "smj", 0},
	{"assert", "hard", "smj", 0},
	{"exit-nonzero", "hard", "smj", 0},
	{"assert-then-die", "hard", "smj", 0},
	{"die-signal", "transient", "smj", 0},
	{"die-early", "transient", "smj", 0},
	{"transient-error", "transient", "smj", 0},
	{"late-error", "hard", "smj", 0},
	{"late-transient-error", "transient", "smj", 0},
	{"truncated-outs", "hard", "smj", 0},
	{"invalid-json", "hard", "mj", 0},
	{"missing-outs", "hard", "mj", 0},
	{"missing-key", "hard", "mj", 1},
	{"wrong-type", "hard", "mj", 1},
	{"misspelt-member", "hard", "mj", 1},
	{"bad-stage-defs", "hard", "s", 0},
	{"missing-stage-defs", "hard", "s", 0}, // detected after the heartbeat timeout (60 simulated minutes)
	// Not in the table: "the job records _complete and then its process exits non-zero
	// or dies".  On the unchanged tree the outcome depends on whether mrp notices the
	// exit before it acts on the completion notice (both orders are legal schedules),
	// so there is no schedule-independent expectation to check (seeded change C06-e
	// lives exactly there and is not caught; DESIGN.md section 12).
	{"extra-key", "benign", "mj", 1},
}

func applicable(prog *Prog, m manifest, j *JobRec, st *StageDef) bool {
	ph := map[string]string{"split": "s", "main": "m", "join": "j"}[j.Phase]
	if !strings.Contains(m.phases, ph) {
		return false
	}
	if m.needSplit == 1 && st.Split && j.Phase == "main" {
		// chunk outputs of splitting stages are only validated at higher
		// enforcement levels; not a failure the property demands
		return false
	}
	if m.name == "misspelt-member" {
		// needs a struct-valued output
		has := false
		for _, f := range st.Outs {
			if prog.Struct(f.T.Base) != nil {
				has = true
			}
		}
		if !has {
			return false
		}
	}
	switch m.name {
	case "missing-key", "wrong-type", "extra-key", "truncated-outs", "invalid-json", "missing-outs":
		// a stage without declared outputs has no outputs to get wrong: martian
		// does not read its _outs, and the property does not ask it to
		if len(st.Outs) == 0 && j.Phase != "split" {
			return false
		}
	}
	return true
}

func c06Case(c *Ctx) {
	gcfg := swarmGen(c.Plan, c.thorough())
	gcfg.ChunkFiles = true
	prog := Generate(c.Plan, gcfg)
	fcfg := &FCfg{MaxLen: 1 + c.Plan.Draw(3), MaxChunks: 1 + c.Plan.Draw(3), Salt: "c06"}
	retries := []int{0, 2, -1}[c.Plan.Draw(3)] // -1: mrp's default (from retry.json)
	flags := append(baseFlags(c.Plan), "--vdrmode=disable")
	if retries >= 0 {
		flags = append(flags, fmt.Sprintf("--autoretry=%d", retries))
	} else {
		retries = 2
	}
	if c.Plan.Draw(3) == 0 {
		// no pause before a retry: the failed attempt is reset within the second in
		// which its directory was made (the uniquifier is pid + second)
		flags = append(flags, "--retry-wait=0")
		c.Res.Probes["bases-with-retry-wait-0"]++
	}
	// a fifth of the bases run in cluster mode under --maxjobs: jobs wait for a
	// submission slot, are not children of mrp, and an in-process retry replaces the
	// slot semaphore while siblings of the failed job still wait for it
	jobMode := ""
	if c.Plan.Draw(5) == 0 || os.Getenv("VERIF_C06_CLUSTER") != "" {
		jobMode = "sge"
		flags = append(flags, fmt.Sprintf("--maxjobs=%d", 1+c.Plan.Draw(3)), fmt.Sprintf("--jobinterval=%d", []int{0, 100, 2000}[c.Plan.Draw(3)]))
		fcfg.MaxChunks = 2 + c.Plan.Draw(4)
		if c.Plan.Draw(2) == 0 {
			// wide stages: while one chunk fails, siblings still wait for a slot
			prog = templateChunksProg(c.Plan)
			fcfg.MaxChunks = 3 + c.Plan.Draw(5)
			fcfg.Salt = fmt.Sprintf("c06w%d", c.Plan.Draw(1000))
		}
		c.Res.Probes["cluster-mode-bases"]++
	}
	base := &RunCfg{Prog: prog, FCfg: fcfg, MaxSteps: 80000, Flags: flags, JobMode: jobMode}
	swarmSched(c.Plan, base)
	twin := c.RunOnce(base, nil)
	c.Res.Shape = progShape(prog)
	c.Res.Class = "twin-" + twin.Class()
	if twin.Class() != "complete" || len(twin.Panics) > 0 || len(twin.Jobs) == 0 {
		why := twin.Class()
		if len(twin.Panics) > 0 {
			why += " with a panic: " + firstLines(twin.Panics[0], 3)
		} else if len(twin.Jobs) == 0 {
			why += " without any job"
		}
		c.Res.Notes = append(c.Res.Notes, "base run unusable: "+why)
		return
	}
	actTwin, err := twin.ReadTopOuts()
	if err != nil {
		return
	}
	twinOuts := Canon(twin.normFiles(actTwin))
	twinArgs := map[string]string{}
	for _, j := range twin.Jobs {
		if j.Args != nil {
			twinArgs[j.Key()+":"+j.Phase] = Canon(twin.normFiles(j.Args))
		}
	}
	ev, _ := Evaluate(prog, twin.Jobs)
	if ev.Rejected != "" || ev.Incomplete || len(ev.Problems) > 0 {
		c.Res.Notes = append(c.Res.Notes, "base run not explained by the model")
		return
	}
	c.Res.Class = "checked"
	c.Res.Nontrivial = len(twin.Jobs) >= 2
	nfaults := 4
	if c.thorough() {
		nfaults = 16
	}
	for i := 0; i < nfaults; i++ {
		if jobMode == "" && len(twin.Jobs) >= 3 && c.Plan.Draw(6) == 0 {
			// two jobs of different forks fail in the same run (both hard, both once)
			a := twin.Jobs[c.Plan.Draw(len(twin.Jobs))]
			b := twin.Jobs[c.Plan.Draw(len(twin.Jobs))]
			if a.Node+a.Fork != b.Node+b.Fork {
				hard := []string{"stage-error", "assert", "exit-nonzero", "late-error"}
				fa, fb := hard[c.Plan.Draw(len(hard))], hard[c.Plan.Draw(len(hard))]
				cfg := &RunCfg{Prog: prog, FCfg: fcfg, MaxSteps: 80000, Flags: flags,
					WMrp: base.WMrp, WJob: base.WJob, WAux: base.WAux, WTime: base.WTime,
					MapMode: base.MapMode, MapSalt: base.MapSalt}
				cfg.JobFaults = map[string]string{a.Key() + ":" + a.Phase + "#1": fa, b.Key() + ":" + b.Phase + "#1": fb}
				cfg.Restarts = 2
				r := c.RunOnce(cfg, nil)
				c.Res.Probes["fault-runs-with-two-failing-jobs"]++
				vs := checkDoubleFailure(r, ev, a, b, fa, fb, twinOuts)
				if len(vs) > 0 || c.Res.Sample == nil {
					s := describeRun(r, true)
					s["fault"] = map[string]interface{}{"job_a": a.Key() + ":" + a.Phase, "fault_a": fa, "job_b": b.Key() + ":" + b.Phase, "fault_b": fb}
					s["twin_outs"] = twinOuts
					c.Res.Sample = s
				}
				if len(vs) > 0 {
					c.Res.Violations = append(c.Res.Violations, vs...)
					break
				}
				continue
			}
		}
		j := twin.Jobs[c.Plan.Draw(len(twin.Jobs))]
		st := prog.Stage(j.Stage)
		var ms []manifest
		for _, m := range manifestations {
			if applicable(prog, m, j, st) {
				ms = append(ms, m)
			}
		}
		m := ms[c.Plan.Draw(len(ms))]
		if jobMode != "" && m.name == "exit-nonzero" && j.JobType != "local" {
			// in cluster mode nobody sees the exit status of a job the scheduler ran
			// (preflight and local stages still run under mrp itself): the job is missed by
			// the queue check after its grace period, which counts as transient
			// (the scheduler may have lost or pre-empted it)
			m.class = "transient"
		}
		persistent := c.Plan.Draw(3) == 0
		key := j.Key() + ":" + j.Phase
		cfg := &RunCfg{Prog: prog, FCfg: fcfg, MaxSteps: 80000, Flags: flags, JobMode: jobMode,
			WMrp: base.WMrp, WJob: base.WJob, WAux: base.WAux, WTime: base.WTime,
			MapMode: base.MapMode, MapSalt: base.MapSalt}
		if persistent {
			cfg.JobFaults = map[string]string{key + "#*": m.name}
		} else {
			cfg.JobFaults = map[string]string{key + "#1": m.name}
			cfg.Restarts = 1
		}
		// the job dies without a word and the disk is full: mrp, which has to record
		// the failure itself, cannot write the error file (first incarnation only)
		diskFull := (m.name == "exit-nonzero" || m.name == "die-signal") && (jobMode == "" || j.JobType == "local") && c.Plan.Draw(3) == 0
		var setup func(r *Run)
		if diskFull {
			setup = func(r *Run) {
				r.PreStart = func() {
					vos.W.Before = func(ev *vos.Event, data []byte) error {
						if r.Inc == 1 && ev.PKind == "mrp" && ev.Op == "write" && strings.HasSuffix(ev.Path, "/_errors") {
							r.Faults["error-file-write-fails-enospc"]++
							return &os.PathError{Op: "write", Path: r.abs(ev.Path), Err: syscall.ENOSPC}
						}
						return nil
					}
				}
			}
		}
		r := c.RunOnce(cfg, setup)
		var vs []Violation
		if diskFull {
			c.Res.Probes["fault-runs-with-full-disk"]++
			vs = checkFailureDiskFull(r, j, m, persistent, twinOuts)
		} else {
			vs = checkFailure(r, twin, ev, j, m, persistent, retries, twinOuts, twinArgs)
		}
		c.Res.Probes["fault-runs"]++
		c.Res.Probes["manifest:"+m.name]++
		if len(vs) > 0 || c.Keep || c.Res.Sample == nil {
			s := describeRun(r, true)
			s["fault"] = map[string]interface{}{"job": key, "manifestation": m.name, "persistent": persistent, "autoretry": retries}
			s["twin_outs"] = twinOuts
			out := r.outBuf.String()
			if len(out) > 2500 {
				out = out[len(out)-2500:]
			}
			s["mrp_output_tail"] = out
			c.Res.Sample = s
		}
		if len(vs) > 0 {
			c.Res.Violations = append(c.Res.Violations, vs...)
			break
		}
	}
}

// dependents returns the fork groups (node+"\x00"+fork) of all instances that
// transitively depend on the instance which ran in the given fork.
func dependents(ev *Eval, node, fork string) map[string]bool {
	var root *Inst
	for _, in := range ev.Insts {
		if in.Group != nil && in.Group.Node == node && in.Group.Fork == fork {
			root = in
		}
	}
	out := map[string]bool{}
	if root == nil {
		return out
	}
	bad := map[*Inst]bool{root: true}
	for changed := true; changed; {
		changed = false
		for _, in := range ev.Insts {
			if bad[in] {
				continue
			}
			for _, d := range in.Deps {
				if bad[d] {
					bad[in] = true
					changed = true
					break
				}
			}
		}
	}
	for in := range bad {
		if in != root && in.Group != nil && !in.Shared {
			out[in.Group.Node+"\x00"+in.Group.Fork] = true
		}
	}
	return out
}

func checkFailure(r *Run, twin *Run, ev *Eval, fj *JobRec, m manifest, persistent bool, retries int, twinOuts string, twinArgs map[string]string) []Violation {
	var out []Violation
	desc := fmt.Sprintf("%s of %s (%s), persistent=%v, autoretry=%d", m.name, fj.Key(), fj.Phase, persistent, retries)
	add := func(oracle, msg string) {
		out = append(out, Violation{"C06", oracle, desc + ": " + msg, r.Steps})
	}
	if r.Class() == "step-budget" {
		// the run was still moving when the step budget ran out: inconclusive,
		// unless what kept it moving is the failing job being run again and again
		r.Probes["step-budget-exhausted"]++
		n := 0
		for _, j := range r.Jobs {
			if j.Key() == fj.Key() && j.Phase == fj.Phase && j.Inc == 1 {
				n++
			}
		}
		if m.class == "hard" && n > 1 {
			add("non-transient-error-retried", fmt.Sprintf("the failing job was executed %d times by the first mrp", n))
		} else if n > 1+retries {
			add("too-many-retries", fmt.Sprintf("the failing job was executed %d times with --autoretry=%d and mrp was still running", n, retries))
		}
		return out
	}
	if len(r.ExitCodes) == 0 {
		add("no-exit", "mrp did not exit: "+r.Class())
		return out
	}
	output := r.outBuf.String()
	firstExit := r.ExitCodes[0]
	// executions of the faulty job by the first incarnation
	execs1 := 0
	injected := 0
	for _, j := range r.Jobs {
		if j.Key() == fj.Key() && j.Phase == fj.Phase && j.Inc == 1 {
			execs1++
			if j.Fault != "" {
				injected++
			}
		}
	}
	for _, j := range r.Jobs {
		if j.Fault == "void" {
			// the outputs held no struct value to misspell: the job ran unharmed
			r.Probes["fault-void"]++
			return out
		}
	}
	if injected == 0 {
		// the job was never reached in this schedule (should not happen: same program)
		add("fault-not-injected", "the selected job never ran")
		return out
	}
	expectFail := false
	switch m.class {
	case "hard":
		expectFail = true
	case "transient":
		expectFail = retries == 0 || persistent
	}
	successMsg := strings.Contains(firstIncOutput(output), "Pipestance completed successfully")
	if expectFail {
		if firstExit == 0 {
			add("failure-not-detected", fmt.Sprintf("mrp exited 0 (exit codes %v)", r.ExitCodes))
		}
		if successMsg {
			add("reported-success", "mrp printed 'Pipestance completed successfully'")
		}
		// (2) the report names the failing stage
		fo := firstIncOutput(output)
		if !strings.Contains(fo, fj.Node+"/") && !strings.Contains(fo, strings.ReplaceAll(fj.Node, "/", ".")) &&
			!strings.Contains(fo, "in "+fj.Stage) {
			add("error-does-not-name-stage", "mrp's report does not mention "+fj.Node+": "+lastLines(fo, 8))
		}
		// (5) retries
		switch m.class {
		case "hard":
			if execs1 != 1 {
				add("non-transient-error-retried", fmt.Sprintf("the failing job was executed %d times by the first mrp", execs1))
			}
		case "transient":
			if execs1 > 1+retries {
				add("too-many-retries", fmt.Sprintf("the failing job was executed %d times with --autoretry=%d", execs1, retries))
			}
		}
	} else {
		// benign, or a one-shot transient failure with retries available
		if firstExit != 0 {
			add("benign-or-retried-failure-failed-pipestance", fmt.Sprintf("mrp exited %d: %s", firstExit, lastLines(firstIncOutput(output), 8)))
		} else if act, err := r.ReadTopOuts(); err != nil {
			add("outs-missing", err.Error())
		} else if got := Canon(r.normFiles(act)); got != twinOuts {
			add("outs-differ", fmt.Sprintf("final outputs %s differ from the fault-free run's %s", got, twinOuts))
		}
		if m.class == "transient" && execs1 != 2 {
			add("transient-retry-count", fmt.Sprintf("one-shot transient failure: job executed %d times, expected 2", execs1))
		}
	}
	// (3) dependents of the failed instance never start while it has not succeeded
	deps := dependents(ev, fj.Node, fj.Fork)
	failedDone := 0 // seq at which a later attempt of the failed job completed
	for _, j := range r.Jobs {
		if j.Key() == fj.Key() && j.Phase == fj.Phase && j.Outcome == "complete" && (j.Fault == "" || j.Fault == "extra-key") {
			if failedDone == 0 || j.EndSeq < failedDone {
				failedDone = j.EndSeq
			}
		}
	}
	for _, j := range r.Jobs {
		if deps[j.Node+"\x00"+j.Fork] && (failedDone == 0 || j.StartSeq < failedDone) {
			add("dependent-started", fmt.Sprintf("job %s (%s) depends on the failed call but was started (seq %d)", j.Key(), j.Phase, j.StartSeq))
			break
		}
	}
	// later phases of the failed fork itself
	order := map[string]int{"split": 0, "main": 1, "join": 2}
	for _, j := range r.Jobs {
		if j.Node == fj.Node && j.Fork == fj.Fork && order[j.Phase] > order[fj.Phase] &&
			(failedDone == 0 || j.StartSeq < failedDone) && m.class != "benign" {
			add("later-phase-started", fmt.Sprintf("%s job of the same fork started (seq %d) although its %s phase had failed", j.Phase, j.StartSeq, fj.Phase))
			break
		}
	}
	// (4) mrp itself writes no error into the directory of another call
	for _, e := range vos.W.Events {
		if e.PKind != "mrp" || e.Op != "write" {
			continue
		}
		if !strings.HasSuffix(e.Path, "/_errors") && !strings.HasSuffix(e.Path, "/_assert") {
			continue
		}
		if r.Cfg.JobMode != "" && r.Cfg.JobMode != "local" {
			// cluster mode: mrp's queue check legitimately records an error for a job
			// the scheduler no longer lists (it races with jobs that are just
			// finishing, and a re-attach after an in-process retry resets what it
			// finds orphaned); those errors are transient and retried
			break
		}
		rel := strings.TrimPrefix(e.Path, "ps/")
		if !strings.HasPrefix(rel, fj.Node+"/"+fj.Fork+"/") && !strings.HasPrefix(rel, fj.Node+"/"+fj.Fork+"_") {
			add("error-written-for-other-call", "mrp wrote "+e.Path)
			break
		}
	}
	// (7) whatever ran without a fault of its own was given what the fault-free run
	// gave it, and every file named in its arguments was there (no VDR in these runs)
	for _, j := range r.Jobs {
		if len(j.MissingFiles) > 0 {
			add("job-given-a-file-that-does-not-exist", fmt.Sprintf("job %s (%s) of incarnation %d: files named in its arguments are missing or changed: %v", j.Key(), j.Phase, j.Inc, j.MissingFiles))
			break
		}
	}
	if r.Class() == "complete" {
		want := twinArgs
		for _, j := range r.Jobs {
			if j.Args == nil || j.Fault != "" {
				continue
			}
			if w, ok := want[j.Key()+":"+j.Phase]; ok {
				if got := Canon(r.normFiles(j.Args)); got != w {
					add("job-received-other-arguments-after-failure", fmt.Sprintf("job %s (%s) of incarnation %d received %s, in the fault-free run %s", j.Key(), j.Phase, j.Inc, got, w))
					break
				}
			}
		}
	}
	// (6) restart after the fault is gone
	if expectFail && !persistent && len(r.ExitCodes) > 1 {
		last := r.ExitCodes[len(r.ExitCodes)-1]
		if last != 0 {
			oracle := "restart-after-fault-removed-failed"
			switch m.name {
			case "truncated-outs", "invalid-json", "missing-outs", "missing-key", "wrong-type", "misspelt-member", "bad-stage-defs", "missing-stage-defs":
				// the job itself recorded completion; martian attributes the error
				// to the join or the fork and never re-runs the job
				oracle = "restart-after-bad-outs-of-completed-job-failed"
			}
			add(oracle, fmt.Sprintf("exit codes %v: %s", r.ExitCodes, lastLines(output, 8)))
		} else if act, err := r.ReadTopOuts(); err != nil {
			add("outs-missing", err.Error())
		} else if got := Canon(r.normFiles(act)); got != twinOuts {
			add("restart-outs-differ", fmt.Sprintf("final outputs %s differ from the fault-free run's %s", got, twinOuts))
		}
		// only the failed work is re-executed
		for _, a := range r.Jobs {
			if a.Inc != 1 || a.Outcome != "complete" || a.Fault != "" {
				continue
			}
			for _, b := range r.Jobs {
				if b.Inc > 1 && b.Id() == a.Id() {
					add("completed-job-reexecuted-after-failure", fmt.Sprintf("%s (%s) had completed before the failure but was executed again on restart", a.Key(), a.Phase))
				}
			}
		}
	}
	return out
}

// checkFailureDiskFull: the job died silently and mrp could not write the error file.
// Whether mrp can still tell a transient failure from a hard one is not asked; it
// must not hang and must not report success with other outputs, and a restart (with
// space on the disk again) finishes the pipestance.
func checkFailureDiskFull(r *Run, fj *JobRec, m manifest, persistent bool, twinOuts string) []Violation {
	var out []Violation
	desc := fmt.Sprintf("%s of %s (%s) while mrp cannot write error files (ENOSPC), persistent=%v", m.name, fj.Key(), fj.Phase, persistent)
	add := func(oracle, msg string) {
		out = append(out, Violation{"C06", oracle, desc + ": " + msg, r.Steps})
	}
	switch r.Class() {
	case "step-budget":
		r.Probes["step-budget-exhausted"]++
		return out
	case "step-limit", "stalled", "no-exit":
		add("failure-never-reported", "mrp neither failed nor finished ("+r.Class()+"): "+lastLines(r.outBuf.String(), 6))
		return out
	}
	if len(r.ExitCodes) == 0 {
		add("no-exit", "mrp did not exit: "+r.Class())
		return out
	}
	if r.ExitCodes[0] == 0 || (len(r.ExitCodes) > 1 && r.ExitCodes[len(r.ExitCodes)-1] == 0) {
		if act, err := r.ReadTopOuts(); err != nil {
			add("outs-missing", err.Error())
		} else if got := Canon(r.normFiles(act)); got != twinOuts {
			add("outs-differ", fmt.Sprintf("final outputs %s differ from the fault-free run's %s", got, twinOuts))
		}
	}
	if !persistent && len(r.ExitCodes) > 1 && r.ExitCodes[len(r.ExitCodes)-1] != 0 {
		add("restart-after-fault-removed-failed", fmt.Sprintf("exit codes %v: %s", r.ExitCodes, lastLines(r.outBuf.String(), 8)))
	}
	return out
}

// checkDoubleFailure: two jobs of different forks fail hard, each on its first attempt.
// Whether the second failure is reached depends on the schedule and on the dependency
// between the two (mrp stops at the first failure it sees); every incarnation that met
// a failure exits non-zero without a success message and names a failing stage; no
// dependent of a failed fork starts before that fork's failed job has a successful
// attempt; at most two restarts later the pipestance completes with the fault-free
// outputs, and nothing that had completed without a fault is executed again.
func checkDoubleFailure(r *Run, ev *Eval, a, b *JobRec, fa, fb string, twinOuts string) []Violation {
	var out []Violation
	desc := fmt.Sprintf("%s of %s (%s) and %s of %s (%s), each on its first attempt", fa, a.Key(), a.Phase, fb, b.Key(), b.Phase)
	add := func(oracle, msg string) {
		out = append(out, Violation{"C06", oracle, desc + ": " + msg, r.Steps})
	}
	if r.Class() == "step-budget" {
		r.Probes["step-budget-exhausted"]++
		return out
	}
	if len(r.ExitCodes) == 0 {
		add("no-exit", "mrp did not exit: "+r.Class())
		return out
	}
	// per incarnation: did a fault fire in it?
	fired := map[int][]*JobRec{}
	for _, j := range r.Jobs {
		if j.Fault == fa && j.Key() == a.Key() && j.Phase == a.Phase || j.Fault == fb && j.Key() == b.Key() && j.Phase == b.Phase {
			fired[j.Inc] = append(fired[j.Inc], j)
		}
	}
	outs := strings.Split(r.outBuf.String(), "Martian Runtime")
	for inc, code := range r.ExitCodes {
		fj := fired[inc+1]
		if len(fj) == 0 {
			continue
		}
		if code == 0 {
			add("failure-not-detected", fmt.Sprintf("incarnation %d met a failing job and exited 0 (exit codes %v)", inc+1, r.ExitCodes))
		}
		if inc+1 < len(outs) {
			text := outs[inc+1]
			if strings.Contains(text, "Pipestance completed successfully") {
				add("reported-success", fmt.Sprintf("incarnation %d printed 'Pipestance completed successfully'", inc+1))
			}
			named := false
			for _, j := range fj {
				if strings.Contains(text, j.Node+"/") || strings.Contains(text, strings.ReplaceAll(j.Node, "/", ".")) || strings.Contains(text, "in "+j.Stage) {
					named = true
				}
			}
			if !named && code != 0 {
				add("error-does-not-name-stage", fmt.Sprintf("the report of incarnation %d mentions none of the stages that failed in it: %s", inc+1, lastLines(text, 8)))
			}
		}
	}
	// hard failures are never retried within an incarnation
	for inc, fj := range fired {
		n := map[string]int{}
		for _, j := range r.Jobs {
			if j.Inc == inc {
				n[j.Key()+":"+j.Phase]++
			}
		}
		for _, j := range fj {
			if n[j.Key()+":"+j.Phase] > 1 {
				add("non-transient-error-retried", fmt.Sprintf("%s (%s) was executed %d times by incarnation %d", j.Key(), j.Phase, n[j.Key()+":"+j.Phase], inc))
			}
		}
	}
	// dependents
	for _, fj := range []*JobRec{a, b} {
		deps := dependents(ev, fj.Node, fj.Fork)
		done := 0
		injected := false
		for _, j := range r.Jobs {
			if j.Key() == fj.Key() && j.Phase == fj.Phase {
				if j.Fault != "" {
					injected = true
				} else if j.Outcome == "complete" && (done == 0 || j.EndSeq < done) {
					done = j.EndSeq
				}
			}
		}
		if !injected {
			continue
		}
		for _, j := range r.Jobs {
			if deps[j.Node+"\x00"+j.Fork] && (done == 0 || j.StartSeq < done) {
				add("dependent-started", fmt.Sprintf("job %s (%s) depends on the failed %s but was started (seq %d) before a later attempt of it succeeded", j.Key(), j.Phase, fj.Key(), j.StartSeq))
				break
			}
		}
	}
	// the end: complete, the fault-free outputs
	last := r.ExitCodes[len(r.ExitCodes)-1]
	if last != 0 {
		add("restart-after-fault-removed-failed", fmt.Sprintf("exit codes %v: %s", r.ExitCodes, lastLines(r.outBuf.String(), 8)))
	} else if act, err := r.ReadTopOuts(); err != nil {
		add("outs-missing", err.Error())
	} else if got := Canon(r.normFiles(act)); got != twinOuts {
		add("restart-outs-differ", fmt.Sprintf("final outputs %s differ from the fault-free run's %s", got, twinOuts))
	}
	for _, x := range r.Jobs {
		if x.Outcome != "complete" || x.Fault != "" {
			continue
		}
		for _, y := range r.Jobs {
			if y.Inc > x.Inc && y.Id() == x.Id() {
				add("completed-job-reexecuted-after-failure", fmt.Sprintf("%s (%s) had completed in incarnation %d but was executed again by incarnation %d", x.Key(), x.Phase, x.Inc, y.Inc))
			}
		}
	}
	if len(out) > 3 {
		out = out[:3]
	}
	return out
}

func firstIncOutput(s string) string {
	// output of the first incarnation: up to the second banner
	const banner = "Martian Runtime"
	i := strings.Index(s, banner)
	if i < 0 {
		return s
	}
	j := strings.Index(s[i+len(banner):], banner)
	if j < 0 {
		return s
	}
	return s[:i+len(banner)+j]
}

func init() {
	Profiles["C06"] = c06Case
}
