package psim

import (
	"encoding/json"
	"fmt"
	"os"
	"path/filepath"
	"regexp"
	"sort"
	"strings"

	"github.com/martian-lang/martian/martian/syntax"
	"github.com/martian-lang/martian/martian/verifsim/vrt"
)

// ---------------------------------------------------------------------------
// C10: compilation, formatting and call-graph resolution are deterministic.
// The nondeterminism source is Go's map iteration order, which the instrumented
// build puts under the seed (rule R2): the same sources are compiled, formatted
// and resolved under several iteration orders (ascending, descending, seeded
// shuffles) and must give byte-identical results; whole pipestances are run
// under different orders and schedules and must give the same directory tree,
// fork identifiers, per-fork _invocation files and outputs.
// ---------------------------------------------------------------------------

var uniqRe = regexp.MustCompile(`-u[0-9a-f]{10}`)

func compileArtifacts(src string, dir string) (out map[string]string) {
	out = map[string]string{}
	// the compiler runs inside the worker: a panic of the compiler on one of the
	// (deliberately broken) texts must not take the worker down; it is an artefact
	// like any other error (and C08's business, not C10's)
	defer func() {
		if p := recover(); p != nil {
			out = map[string]string{"error": fmt.Sprintf("COMPILER PANIC: %T %v", p, p)}
		}
	}()
	post, _, ast, err := syntax.ParseSourceBytes([]byte(src), filepath.Join(dir, "pipeline.mro"), []string{dir}, false)
	if err != nil {
		out["error"] = err.Error()
		return out
	}
	out["mrosource"] = post
	out["format"] = ast.Format()
	if f, err := syntax.FormatSrcBytes([]byte(src), "pipeline.mro", false, []string{dir}); err == nil {
		out["format-src"] = f
	} else {
		out["format-src"] = "error: " + err.Error()
	}
	// the source without its file type declarations, formatted with the repair of
	// includes and declarations switched on: the missing declarations are added
	{
		var keep []string
		n := 0
		for _, l := range strings.Split(src, "\n") {
			if strings.HasPrefix(l, "filetype ") {
				n++
				continue
			}
			keep = append(keep, l)
		}
		if n > 0 {
			if f, err := syntax.FormatSrcBytes([]byte(strings.Join(keep, "\n")), filepath.Join(dir, "pipeline.mro"), true, []string{dir}); err == nil {
				out["format-with-declarations-restored"] = f
			} else {
				out["format-with-declarations-restored"] = "error: " + err.Error()
			}
		}
	}
	if ast.Call != nil {
		if cg, err := ast.MakeCallGraph("ID.ps.", ast.Call); err != nil {
			out["callgraph"] = "error: " + err.Error()
		} else if b, err := json.Marshal(cg); err != nil {
			out["callgraph"] = "marshal error: " + err.Error()
		} else {
			out["callgraph"] = string(b)
		}
	}
	return out
}

func mutants(src string) []string {
	var out []string
	// several unknown / missing parameters at once
	out = append(out, strings.ReplaceAll(src, "i0 = ", "zz0 = "))
	// several unknown types at once
	out = append(out, strings.ReplaceAll(strings.ReplaceAll(src, " int ", " intt "), " string ", " strng "))
	// references to outputs that do not exist
	out = append(out, strings.ReplaceAll(src, ".o0", ".nope0"))
	// every call carries all three modifiers in both spellings (conflicting
	// modifiers on stage calls, unsupported tags on pipeline calls)
	{
		t := callRe.ReplaceAllString(src, "${1}call local preflight volatile ")
		t = strings.ReplaceAll(t, "    )\n\n", "    ) using (\n        local = true,\n        preflight = true,\n        volatile = true,\n    )\n\n")
		out = append(out, t)
	}
	// duplicate parameter and field names
	out = append(out, strings.ReplaceAll(strings.ReplaceAll(src, " i1,", " i0,"), " f1,", " f0,"))
	// every binding of the first parameter is missing
	{
		var keep []string
		for _, l := range strings.Split(src, "\n") {
			if strings.HasPrefix(strings.TrimSpace(l), "i0 = ") && strings.HasSuffix(l, ",") {
				continue
			}
			keep = append(keep, l)
		}
		out = append(out, strings.Join(keep, "\n"))
	}
	// unknown callables
	out = append(out, callRe.ReplaceAllString(src, "${1}call ZZ"))
	// unknown fields in struct literals and projections
	out = append(out, strings.ReplaceAll(strings.ReplaceAll(src, "f0: ", "zq0: "), ".f1", ".zq1"))
	// type mismatches at many bindings
	out = append(out, strings.ReplaceAll(strings.ReplaceAll(src, "in  int ", "in  string[] "), "in  string ", "in  map<int> "))
	// (a valid text) a comment before every binding whose value is a map or struct
	// literal written on one line: the formatter has to attach it to something
	{
		var ls []string
		for _, l := range strings.Split(src, "\n") {
			if strings.Contains(l, " = {") && strings.Contains(l, ": ") && strings.HasSuffix(l, "},") {
				ind := l[:len(l)-len(strings.TrimLeft(l, " "))]
				ls = append(ls, ind+"# about the next value")
				// ... and one inside the literal, before its entries (all on one line)
				i := strings.Index(l, " = {")
				ls = append(ls, l[:i+4], ind+"    # about the entries", ind+"    "+l[i+4:len(l)-2], ind+"},")
				continue
			}
			ls = append(ls, l)
		}
		out = append(out, strings.Join(ls, "\n"))
	}
	// retained parameters that do not exist / are repeated
	out = append(out, strings.ReplaceAll(src, ") retain (\n", ") retain (\n    nope1,\n    nope0,\n"))
	return out
}

var callRe = regexp.MustCompile(`(?m)^(\s*(?:map )?)call `)

// treeSignature lists a pipestance directory with uniquifiers removed, plus the
// contents of the files that record fork identity and results.
func treeSignature(ps string) (string, map[string]string) {
	var names []string
	files := map[string]string{}
	filepath.Walk(ps, func(p string, info os.FileInfo, err error) error {
		if err != nil {
			return nil
		}
		rel := strings.TrimPrefix(p, ps)
		if strings.HasPrefix(rel, "/journal") || strings.HasPrefix(rel, "/tmp") {
			return nil
		}
		norm := uniqRe.ReplaceAllString(rel, "")
		base := filepath.Base(p)
		// fork and chunk directories carry the fork identifiers; residue of the
		// asynchronous cleanup (tmp/, _vdrkill*) legitimately depends on the schedule
		if info.IsDir() && (strings.HasPrefix(base, "fork") || strings.HasPrefix(base, "chnk")) {
			names = append(names, norm)
		}
		if base == "_invocation" || base == "_outs" || base == "_args" || base == "_mrosource" || base == "_stage_defs" || base == "_chunk_defs" {
			if b, err := os.ReadFile(p); err == nil {
				files[norm] = uniqRe.ReplaceAllString(string(b), "")
			}
		}
		return nil
	})
	// the final state lists the forks of every node in fork-index order: the
	// assignment of indices to elements/keys must not depend on map iteration
	if b, err := os.ReadFile(filepath.Join(ps, "_finalstate")); err == nil {
		var nodes []struct {
			Fqname string `json:"fqname"`
			Forks  []struct {
				Index    int `json:"index"`
				Metadata struct {
					Path string `json:"path"`
				} `json:"metadata"`
			} `json:"forks"`
		}
		if json.Unmarshal(b, &nodes) == nil {
			var lines []string
			for _, n := range nodes {
				l := n.Fqname + ":"
				for _, f := range n.Forks {
					l += fmt.Sprintf(" %d=%s", f.Index, filepath.Base(f.Metadata.Path))
				}
				lines = append(lines, l)
			}
			sort.Strings(lines)
			files["_finalstate(fork order)"] = strings.Join(lines, "\n")
		}
	}
	// ... and for every node its edges and, per fork, its argument and return bindings
	// in the order in which they are serialised (the user interface draws from them)
	if b, err := os.ReadFile(filepath.Join(ps, "_finalstate")); err == nil {
		var nodes []map[string]interface{}
		if json.Unmarshal(b, &nodes) == nil {
			var lines []string
			for _, n := range nodes {
				l := fmt.Sprint(n["fqname"]) + ": type=" + fmt.Sprint(n["type"]) + " state=" + fmt.Sprint(n["state"])
				eb, _ := json.Marshal(n["edges"])
				l += " edges=" + string(eb)
				forks, _ := n["forks"].([]interface{})
				for _, f := range forks {
					fm, _ := f.(map[string]interface{})
					bm, _ := fm["bindings"].(map[string]interface{})
					for _, side := range []string{"Argument", "Return"} {
						bs, _ := bm[side].([]interface{})
						l += " " + side + "["
						for _, x := range bs {
							xm, _ := x.(map[string]interface{})
							vb, _ := json.Marshal(xm["value"])
							l += fmt.Sprintf("%v:%v:%v:%v=%s,", xm["id"], xm["type"], xm["mode"], xm["node"], uniqRe.ReplaceAllString(string(vb), ""))
						}
						l += "]"
					}
					ab, _ := json.Marshal(fm["argPermute"])
					l += " permute=" + string(ab)
				}
				lines = append(lines, l)
			}
			files["_finalstate(edges and bindings)"] = strings.Join(lines, "\n")
		}
	}
	sort.Strings(names)
	// chunk directories appear twice (symlink + uniquified target): dedupe
	var dd []string
	for i, n := range names {
		if i == 0 || n != names[i-1] {
			dd = append(dd, n)
		}
	}
	return strings.Join(dd, "\n"), files
}

func c10Case(c *Ctx) {
	gcfg := swarmGen(c.Plan, c.thorough())
	gcfg.MaxLit += 4 // wide literals
	gcfg.TypedMaps = true
	gcfg.Structs = true
	if c.Plan.Draw(2) == 0 {
		gcfg.Files, gcfg.Retain, gcfg.RetainDup = true, true, true
		gcfg.ManyFileTypes = c.Plan.Draw(2) == 0
	}
	prog := Generate(c.Plan, gcfg)
	tsel := c.Plan.Draw(7)
	forkTemplate := tsel == 0
	if forkTemplate {
		prog = templateForkOrderProg(c.Plan)
		c.Res.Probes["fork-order-template"]++
	}
	if tsel == 2 {
		// a pipeline map-called over a literal collection, holding a sub-pipeline whose
		// inputs come from a stage that forks with the map call and from one that does not
		prog = templateLiteralMapProg(c.Plan)
		c.Res.Probes["literal-map-call-with-mixed-inputs-template"]++
	}
	if tsel == 1 {
		// the same call id at several nesting levels, all of them feeding one stage
		prog = templateSameIdProg(c.Plan)
		c.Res.Probes["same-call-id-at-several-levels-template"]++
	}
	src := prog.Source()
	c.Res.Shape = progShape(prog)
	c.Res.Class = "checked"
	dir := filepath.Join(c.Root, "mro")
	os.MkdirAll(dir, 0755)
	os.WriteFile(filepath.Join(dir, "stagebin"), []byte("#!/bin/false\n"), 0755)
	k := 4
	if c.thorough() {
		k = 24
	}
	salt := uint64(c.Plan.Draw(1 << 30))
	add := func(oracle, msg string) {
		c.Res.Violations = append(c.Res.Violations, Violation{"C10", oracle, msg, 0})
	}
	// ---- unit tier ----
	texts := append([]string{src}, mutants(src)...)
	for ti, text := range texts {
		var ref map[string]string
		refMode := ""
		for i := 0; i < k; i++ {
			mode := i
			if mode > 2 {
				mode = 2
			}
			vrt.S.MapMode, vrt.S.MapSalt = mode, salt+uint64(i)*7919
			art := compileArtifacts(text, dir)
			c.Res.Probes["compilations"]++
			if e, isErr := art["error"]; isErr {
				c.Res.Probes["error-texts-compared"]++
				if strings.HasPrefix(e, "COMPILER PANIC") {
					c.Res.Probes["compiler-panics-on-broken-text"]++
				}
			}
			desc := fmt.Sprintf("map order mode %d salt %d", mode, vrt.S.MapSalt)
			if ref == nil {
				ref, refMode = art, desc
				continue
			}
			for key, v := range art {
				if ref[key] != v {
					add("artifact-differs-across-map-orders", fmt.Sprintf("text %d: %s differs between %s and %s:\n--- %s\n+++ %s",
						ti, key, refMode, desc, clip(ref[key], 600), clip(v, 600)))
				}
			}
			if len(art) != len(ref) {
				add("artifact-set-differs", fmt.Sprintf("text %d: %s vs %s produce different result kinds", ti, refMode, desc))
			}
			if len(c.Res.Violations) > 0 {
				break
			}
		}
		if len(c.Res.Violations) > 0 {
			break
		}
	}
	vrt.S.MapMode, vrt.S.MapSalt = 0, 0
	// ---- system tier ----
	if len(c.Res.Violations) == 0 {
		fcfg := &FCfg{MaxLen: 1 + c.Plan.Draw(3), MaxChunks: c.Plan.Draw(3), Salt: "c10"}
		if forkTemplate {
			fcfg.MaxLen = 3 + c.Plan.Draw(6)
			fcfg.Salt = fmt.Sprintf("c10-%d", c.Plan.Draw(1000))
		}
		flags := append(baseFlags(c.Plan), "--vdrmode=disable")
		var refTree string
		var refFiles map[string]string
		refDesc := ""
		nruns := 3
		if c.thorough() {
			nruns = 5
		}
		for i := 0; i < nruns; i++ {
			cfg := &RunCfg{Prog: prog, FCfg: fcfg, MaxSteps: 60000, Flags: flags}
			swarmSched(c.Plan, cfg)
			// ascending, a seeded shuffle, descending, further shuffles: sorted and
			// reverse-sorted orders alone let order-dependent code get away (a
			// broken sort of already sorted input still looks sorted)
			cfg.MapMode = []int{0, 2, 1, 2, 2}[i%5]
			cfg.MapSalt = salt + uint64(i)
			r := c.RunOnce(cfg, nil)
			if r.Class() != "complete" || len(r.Panics) > 0 {
				c.Res.Class = "run-" + r.Class()
				break
			}
			tree, files := treeSignature(r.PsDir)
			desc := fmt.Sprintf("run %d (map order mode %d, schedule %x)", i, cfg.MapMode, r.SchedHash)
			c.Res.Nontrivial = len(r.Jobs) >= 2
			if i == 0 {
				refTree, refFiles, refDesc = tree, files, desc
				if c.Res.Sample == nil {
					c.Res.Sample = map[string]interface{}{"program": src, "tree_entries": strings.Count(tree, "\n") + 1, "compared_files": len(files)}
				}
				continue
			}
			if tree != refTree {
				add("pipestance-tree-differs", fmt.Sprintf("directory listing differs between %s and %s: %s", refDesc, desc, diffLines(refTree, tree)))
			}
			for name, content := range files {
				if rc, ok := refFiles[name]; ok && rc != content {
					add("recorded-file-differs", fmt.Sprintf("%s differs between %s and %s:\n--- %s\n+++ %s", name, refDesc, desc, clip(rc, 500), clip(content, 500)))
					break
				}
			}
			if len(c.Res.Violations) > 0 {
				s := describeRun(r, true)
				c.Res.Sample = s
				break
			}
		}
	}
	if len(c.Res.Violations) > 0 && c.Res.Sample == nil {
		c.Res.Sample = map[string]interface{}{"program": src}
	}
}

func clip(s string, n int) string {
	if len(s) > n {
		return s[:n] + "..."
	}
	return s
}

func diffLines(a, b string) string {
	as, bs := strings.Split(a, "\n"), strings.Split(b, "\n")
	am, bm := map[string]bool{}, map[string]bool{}
	for _, x := range as {
		am[x] = true
	}
	for _, x := range bs {
		bm[x] = true
	}
	var only []string
	for _, x := range as {
		if !bm[x] {
			only = append(only, "-"+x)
		}
	}
	for _, x := range bs {
		if !am[x] {
			only = append(only, "+"+x)
		}
	}
	if len(only) > 12 {
		only = only[:12]
	}
	return strings.Join(only, " ")
}

// templateLiteralMapProg: TOP map-calls MID over a literal array or typed map (fork counts
// known at compile time); MID calls one stage per element (it forks with the map call) and
// one or two stages with arguments that do not depend on the element (they do not), and
// hands their results - in a drawn order, next to pipeline inputs - to a sub-pipeline.
func templateLiteralMapProg(plan *Tape) *Prog {
	p := &Prog{}
	intT := Ty{Base: "int"}
	ref := func(call string, path ...string) *Expr { return &Expr{Kind: ERef, Call: call, Path: path} }
	self := func(path ...string) *Expr { return &Expr{Kind: ERef, Self: true, Path: path} }
	nshared := 1 + plan.Draw(2)
	leaf := &StageDef{Name: "LEAF", SrcKind: "comp", Ins: []Field{{"v", intT}}, Outs: []Field{{"z", intT}}}
	inner := &PipelineDef{Name: "INNER", Ins: []Field{{"v", intT}}, Outs: []Field{{"z", intT}}}
	p.Stages = []*StageDef{{Name: "PERELEM", SrcKind: "comp", Ins: []Field{{"x", intT}}, Outs: []Field{{"y", intT}}}}
	mid := &PipelineDef{Name: "MID", Ins: []Field{{"elem", intT}, {"n", intT}}, Outs: []Field{{"z", intT}}}
	mid.Calls = []*CallDef{{Callee: "PERELEM", Id: "PERELEM", Binds: []Bind{{"x", self("elem"), false}}}}
	ibinds := []Bind{{"v", ref("PERELEM", "y"), false}}
	lbinds := []Bind{{"v", self("v"), false}}
	for i := 0; i < nshared; i++ {
		nm := fmt.Sprintf("SHARED%d", i)
		p.Stages = append(p.Stages, &StageDef{Name: nm, SrcKind: "comp", Ins: []Field{{"n", intT}}, Outs: []Field{{"y", intT}}})
		mid.Calls = append(mid.Calls, &CallDef{Callee: nm, Id: nm, Binds: []Bind{{"n", self("n"), false}}})
		w := fmt.Sprintf("w%d", i)
		inner.Ins = append(inner.Ins, Field{w, intT})
		leaf.Ins = append(leaf.Ins, Field{w, intT})
		ibinds = append(ibinds, Bind{w, ref(nm, "y"), false})
		lbinds = append(lbinds, Bind{w, self(w), false})
	}
	if plan.Draw(2) == 0 {
		inner.Ins = append(inner.Ins, Field{"u", intT})
		leaf.Ins = append(leaf.Ins, Field{"u", intT})
		ibinds = append(ibinds, Bind{"u", self("n"), false})
		lbinds = append(lbinds, Bind{"u", self("u"), false})
	}
	for i := len(ibinds) - 1; i > 0; i-- {
		k := plan.Draw(i + 1)
		ibinds[i], ibinds[k] = ibinds[k], ibinds[i]
	}
	p.Stages = append(p.Stages, leaf)
	inner.Calls = []*CallDef{{Callee: "LEAF", Id: "LEAF", Binds: lbinds}}
	inner.Ret = []Bind{{"z", ref("LEAF", "z"), false}}
	mid.Calls = append(mid.Calls, &CallDef{Callee: "INNER", Id: "INNER", Binds: ibinds})
	mid.Ret = []Bind{{"z", ref("INNER", "z"), false}}
	top := &PipelineDef{Name: "TOPL", Ins: []Field{{"n", intT}}}
	nel := 2 + plan.Draw(3)
	var src *Expr
	outT := intT.ArrayOf()
	if plan.Draw(2) == 0 {
		var vals []interface{}
		for i := 0; i < nel; i++ {
			vals = append(vals, int64(10+i))
		}
		src = &Expr{Kind: ELit, Val: vals, T: intT.ArrayOf()}
	} else {
		m := NewOMap()
		for i := 0; i < nel; i++ {
			m.Set([]string{"q", "b", "zz", "a", "m"}[i], int64(20+i))
		}
		src = &Expr{Kind: ELit, Val: m, T: intT.MapOf()}
		outT = intT.MapOf()
	}
	top.Calls = []*CallDef{{Callee: "MID", Id: "MID", Mapped: true, Binds: []Bind{{"elem", src, true}, {"n", self("n"), false}}}}
	top.Outs = []Field{{"zs", outT}}
	top.Ret = []Bind{{"zs", ref("MID", "z"), false}}
	p.Pipelines = []*PipelineDef{inner, mid, top}
	p.Top = &CallDef{Callee: "TOPL", Id: "TOPL", Binds: []Bind{{"n", &Expr{Kind: ELit, Val: int64(plan.Draw(10000)), T: intT}, false}}}
	return p
}

// templateSameIdProg: pipelines nested two to four deep, each calling a stage under the
// same call id (PREP) and handing its result down; the innermost consumer is bound to
// its sibling PREP and, through pipeline inputs, to the PREPs of all enclosing levels:
// its direct dependencies have equal ids and different fully qualified names.
func templateSameIdProg(plan *Tape) *Prog {
	p := &Prog{}
	intT := Ty{Base: "int"}
	ref := func(call string, path ...string) *Expr { return &Expr{Kind: ERef, Call: call, Path: path} }
	self := func(path ...string) *Expr { return &Expr{Kind: ERef, Self: true, Path: path} }
	depth := 2 + plan.Draw(3)
	use := &StageDef{Name: "USE", SrcKind: "comp", Outs: []Field{{"y", intT}}}
	for i := 0; i <= depth; i++ {
		use.Ins = append(use.Ins, Field{fmt.Sprintf("a%d", i), intT})
	}
	p.Stages = []*StageDef{{Name: "PREP", SrcKind: "comp", Ins: []Field{{"n", intT}}, Outs: []Field{{"x", intT}}}, use}
	// level 0 is the innermost pipeline; level k gets k inputs handed down from above
	// plus the seed n
	var prev *PipelineDef
	for lvl := 0; lvl < depth; lvl++ {
		pl := &PipelineDef{Name: fmt.Sprintf("LVL%d", lvl), Ins: []Field{{"n", intT}}, Outs: []Field{{"y", intT}}}
		nUp := depth - 1 - lvl // values handed down from the enclosing levels
		for i := 0; i < nUp; i++ {
			pl.Ins = append(pl.Ins, Field{fmt.Sprintf("up%d", i), intT})
		}
		pl.Calls = []*CallDef{{Callee: "PREP", Id: "PREP", Binds: []Bind{{"n", self("n"), false}}}}
		if lvl == 0 {
			binds := []Bind{{"a0", ref("PREP", "x"), false}}
			for i := 0; i < nUp; i++ {
				binds = append(binds, Bind{fmt.Sprintf("a%d", i+1), self(fmt.Sprintf("up%d", i)), false})
			}
			binds = append(binds, Bind{fmt.Sprintf("a%d", nUp+1), self("n"), false})
			// the order of the bindings in the source is drawn as well
			for i := len(binds) - 1; i > 0; i-- {
				k := plan.Draw(i + 1)
				binds[i], binds[k] = binds[k], binds[i]
			}
			pl.Calls = append(pl.Calls, &CallDef{Callee: "USE", Id: "USE", Binds: binds})
			pl.Ret = []Bind{{"y", ref("USE", "y"), false}}
		} else {
			binds := []Bind{{"n", self("n"), false}, {"up0", ref("PREP", "x"), false}}
			for i := 0; i < nUp; i++ {
				binds = append(binds, Bind{fmt.Sprintf("up%d", i+1), self(fmt.Sprintf("up%d", i)), false})
			}
			pl.Calls = append(pl.Calls, &CallDef{Callee: prev.Name, Id: prev.Name, Binds: binds})
			pl.Ret = []Bind{{"y", ref(prev.Name, "y"), false}}
		}
		p.Pipelines = append(p.Pipelines, pl)
		prev = pl
	}
	lit := func(v int) *Expr { return &Expr{Kind: ELit, Val: int64(v), T: intT} }
	p.Top = &CallDef{Callee: prev.Name, Id: prev.Name, Binds: []Bind{{"n", lit(plan.Draw(10000)), false}}}
	return p
}

// templateForkOrderProg builds programs whose map calls get their forks from
// collections that only exist at run time, reached in every way the resolver
// distinguishes: a stage's typed-map or array output directly, a field projected
// through a typed map (or array) of structs, a collection passed through a
// sub-pipeline, and a literal map.  The order of the forks of every such call is
// compared across map iteration orders (C10).
func templateForkOrderProg(plan *Tape) *Prog {
	p := &Prog{}
	intT, strT := Ty{Base: "int"}, Ty{Base: "string"}
	item := &StructDef{Name: "ITEM", Fields: []Field{{"value", intT}, {"name", strT}}}
	p.Structs = []*StructDef{item}
	itemT := Ty{Base: "ITEM"}
	ref := func(call string, path ...string) *Expr { return &Expr{Kind: ERef, Call: call, Path: path} }
	self := func(path ...string) *Expr { return &Expr{Kind: ERef, Self: true, Path: path} }
	mapOf := func(t Ty) Ty { return Ty{Base: t.Base, Dims: "m" + t.Dims} }
	mk := &StageDef{Name: "MAKE", SrcKind: "comp", Ins: []Field{{"n", intT}},
		Outs: []Field{{"result", mapOf(itemT)}, {"list", itemT.ArrayOf()}, {"nums", mapOf(intT)}}}
	use := &StageDef{Name: "USE", SrcKind: "comp", Ins: []Field{{"x", intT}, {"tag", strT}}, Outs: []Field{{"y", intT}}}
	if plan.Draw(3) == 0 {
		use.Split = true
		use.ChunkIns = []Field{{"c0", intT}}
		use.ChunkOuts = []Field{{"part", intT}}
	}
	p.Stages = []*StageDef{mk, use}
	inner := &PipelineDef{Name: "INNER", Ins: []Field{{"vals", mapOf(intT)}}, Outs: []Field{{"ys", mapOf(intT)}}}
	inner.Calls = []*CallDef{{Callee: "USE", Id: "USE", Mapped: true,
		Binds: []Bind{{"x", self("vals"), true}, {"tag", &Expr{Kind: ELit, Val: "inner", T: strT}, false}}}}
	inner.Ret = []Bind{{"ys", ref("USE", "y"), false}}
	top := &PipelineDef{Name: "TOPF", Ins: []Field{{"n", intT}}}
	top.Calls = append(top.Calls, &CallDef{Callee: "MAKE", Id: "MAKE", Binds: []Bind{{"n", self("n"), false}}})
	lit := func(tag string) *Expr { return &Expr{Kind: ELit, Val: tag, T: strT} }
	type variant struct {
		id  string
		src *Expr
	}
	vs := []variant{
		{"USE_FIELD", ref("MAKE", "result", "value")},
		{"USE_NUMS", ref("MAKE", "nums")},
		{"USE_LISTF", ref("MAKE", "list", "value")},
	}
	// a literal typed map: its forks are known (and ordered) at compile time
	litKeys := []string{"q", "b", "zz", "a", "m", "K", "0", "k9", "B"}
	nk := 3 + plan.Draw(5)
	lm := NewOMap()
	off := plan.Draw(len(litKeys))
	for i := 0; i < nk; i++ {
		lm.Set(litKeys[(off+i*2)%len(litKeys)]+fmt.Sprint(i%3), int64(100+i))
	}
	vs = append(vs, variant{"USE_LIT", &Expr{Kind: ELit, Val: lm, T: mapOf(intT)}})
	n := 0
	for _, v := range vs {
		if plan.Draw(3) > 0 || n == 0 {
			n++
			top.Calls = append(top.Calls, &CallDef{Callee: "USE", Id: v.id, Mapped: true,
				Binds: []Bind{{"x", v.src, true}, {"tag", lit(v.id), false}}})
			top.Outs = append(top.Outs, Field{"o" + fmt.Sprint(n), Ty{Base: "int", Dims: map[bool]string{true: "a", false: "m"}[v.id == "USE_LISTF"]}})
			top.Ret = append(top.Ret, Bind{"o" + fmt.Sprint(n), ref(v.id, "y"), false})
			if plan.Draw(2) == 0 {
				// a stage consuming the merged results of all forks of the mapped call
				ct := Ty{Base: "int", Dims: map[bool]string{true: "a", false: "m"}[v.id == "USE_LISTF"]}
				nm := "SUM_" + v.id
				p.Stages = append(p.Stages, &StageDef{Name: nm, SrcKind: "comp", Ins: []Field{{"ys", ct}}, Outs: []Field{{"s", intT}}})
				top.Calls = append(top.Calls, &CallDef{Callee: nm, Id: nm, Binds: []Bind{{"ys", ref(v.id, "y"), false}}})
				top.Outs = append(top.Outs, Field{"s" + fmt.Sprint(n), intT})
				top.Ret = append(top.Ret, Bind{"s" + fmt.Sprint(n), ref(nm, "s"), false})
			}
		}
	}
	if plan.Draw(2) == 0 {
		p.Pipelines = append(p.Pipelines, inner)
		top.Calls = append(top.Calls, &CallDef{Callee: "INNER", Id: "INNER", Binds: []Bind{{"vals", ref("MAKE", "result", "value"), false}}})
		top.Outs = append(top.Outs, Field{"inner", mapOf(intT)})
		top.Ret = append(top.Ret, Bind{"inner", ref("INNER", "ys"), false})
	}
	if plan.Draw(2) == 0 {
		// a pipeline whose outputs come from different stages, map-called over a
		// run-time collection, its whole output struct bound at once (the merge
		// needs one of the child stages as its fork node: which one must not
		// depend on map order)
		rs := &StructDef{Name: "RS", Fields: []Field{{"s", intT}, {"p", intT}, {"q", intT}}}
		p.Structs = append(p.Structs, rs)
		for _, nm := range []string{"ADD", "MUL", "SUB"} {
			p.Stages = append(p.Stages, &StageDef{Name: nm, SrcKind: "comp", Ins: []Field{{"x", intT}}, Outs: []Field{{"r", intT}}})
		}
		both := &PipelineDef{Name: "BOTH", Ins: []Field{{"x", intT}}, Outs: []Field{{"s", intT}, {"p", intT}, {"q", intT}}}
		for _, nm := range []string{"ADD", "MUL", "SUB"} {
			both.Calls = append(both.Calls, &CallDef{Callee: nm, Id: nm, Binds: []Bind{{"x", self("x"), false}}})
		}
		both.Ret = []Bind{{"s", ref("ADD", "r"), false}, {"p", ref("MUL", "r"), false}, {"q", ref("SUB", "r"), false}}
		p.Pipelines = append(p.Pipelines, both)
		top.Calls = append(top.Calls, &CallDef{Callee: "BOTH", Id: "BOTH", Mapped: true, Binds: []Bind{{"x", ref("MAKE", "list", "value"), true}}})
		top.Outs = append(top.Outs, Field{"both", Ty{Base: "RS", Dims: "a"}})
		top.Ret = append(top.Ret, Bind{"both", ref("BOTH"), false})
	}
	if plan.Draw(3) == 0 {
		// a pipeline map-called with two split arguments, inside a pipeline which is
		// itself map-called over run-time keys: the per-fork _invocation of the inner
		// pipeline records which arguments are split
		pair := &PipelineDef{Name: "PAIRP", Ins: []Field{{"a", intT}, {"b", intT}, {"c", intT}, {"t", intT}}, Outs: []Field{{"y", intT}}}
		pair.Calls = []*CallDef{{Callee: "USE", Id: "USE", Binds: []Bind{{"x", self("a"), false}, {"tag", lit("pair"), false}}},
			{Callee: "USE", Id: "USE_B", Binds: []Bind{{"x", self("b"), false}, {"tag", lit("pairb"), false}}},
			{Callee: "USE", Id: "USE_C", Binds: []Bind{{"x", self("c"), false}, {"tag", lit("pairc"), false}}},
			{Callee: "USE", Id: "USE_T", Binds: []Bind{{"x", self("t"), false}, {"tag", lit("pairt"), false}}}}
		pair.Ret = []Bind{{"y", ref("USE", "y"), false}}
		ilits := func(vs ...int) *Expr {
			var l []interface{}
			for _, v := range vs {
				l = append(l, int64(v))
			}
			return &Expr{Kind: ELit, Val: l, T: intT.ArrayOf()}
		}
		mid := &PipelineDef{Name: "MIDP", Ins: []Field{{"v", intT}, {"xs", intT.ArrayOf()}, {"zs", intT.ArrayOf()}}, Outs: []Field{{"ys", intT.ArrayOf()}}}
		mid.Calls = []*CallDef{{Callee: "PAIRP", Id: "PAIRP", Mapped: true, Binds: []Bind{
			{"a", self("xs"), true},
			{"b", ilits(4, 5, 6), true},
			{"c", self("zs"), true},
			{"t", self("v"), false}}}}
		mid.Ret = []Bind{{"ys", ref("PAIRP", "y"), false}}
		p.Pipelines = append(p.Pipelines, pair, mid)
		top.Calls = append(top.Calls, &CallDef{Callee: "MIDP", Id: "MIDP", Mapped: true, Binds: []Bind{
			{"v", ref("MAKE", "nums"), true}, {"xs", ilits(7, 8, 9), false}, {"zs", ilits(1, 2, 3), false}}})
		top.Outs = append(top.Outs, Field{"mid", Ty{Base: "int", Dims: "ma"}})
		top.Ret = append(top.Ret, Bind{"mid", ref("MIDP", "ys"), false})
	}
	p.Pipelines = append(p.Pipelines, top)
	p.Top = &CallDef{Callee: "TOPF", Id: "TOPF", Binds: []Bind{{"n", &Expr{Kind: ELit, Val: int64(2 + plan.Draw(7)), T: intT}, false}}}
	return p
}

func init() {
	Profiles["C10"] = c10Case
}
