package psim

import (
	"fmt"
	"os"
	"path"
	"time"
)

// ---------------------------------------------------------------------------
// C11, attempt attribution: "every completion, error or progress notification
// written for a job is attributed by mrp to exactly the node, fork, chunk and
// attempt that wrote it".
//
// Fault: one attempt of one job goes silent (no heartbeat) until mrp gives up on
// it (heartbeat timeout, 60 simulated minutes) and retries the job under a new
// uniquifier; then the old attempt comes back - mrp does not kill local jobs it
// has given up on - and finishes in one of four ways: it completes (with outputs
// that differ from the real ones), reports an error, exits non-zero, or dies
// from a signal.  Its files carry the old uniquifier, its process is still the
// child the job manager waits for.  None of that may reach the new attempt: the
// pipestance completes with the outputs of an undisturbed run, and no job
// receives an argument that the undisturbed run did not deliver.
// ---------------------------------------------------------------------------

var staleEnds = []string{"stale-complete", "stale-errors", "stale-exit", "stale-die"}

func c11Stale(c *Ctx) {
	gcfg := swarmGen(c.Plan, c.thorough())
	gcfg.TypedMaps, gcfg.MapCalls = true, true
	gcfg.AdvKeys = AdvKeys
	gcfg.MapBias = true
	prog := Generate(c.Plan, gcfg)
	if c.Plan.Draw(3) == 0 {
		prog = templateForkOrderProg(c.Plan)
	}
	fcfg := &FCfg{MaxLen: 1 + c.Plan.Draw(3), MaxChunks: 1 + c.Plan.Draw(3), Salt: fmt.Sprintf("c11s%d", c.Plan.Draw(100)), KeyAlphabet: AdvKeys}
	flags := append(baseFlags(c.Plan), "--vdrmode=disable", "--autoretry=2")
	base := &RunCfg{Prog: prog, FCfg: fcfg, MaxSteps: 80000, Flags: flags}
	swarmSched(c.Plan, base)
	twin := c.RunOnce(base, nil)
	c.Res.Shape = progShape(prog)
	c.Res.Class = "stale-twin-" + twin.Class()
	if twin.Class() == "step-limit" || twin.Class() == "stalled" {
		c.Res.Violations = append(c.Res.Violations, Violation{"C11", "mapped-call-never-completes",
			"undisturbed run did not terminate: " + lastLines(twin.outBuf.String(), 8), twin.Steps})
		c.Res.Sample = describeRun(twin, true)
		return
	}
	if twin.Class() != "complete" || len(twin.Panics) > 0 {
		return
	}
	actTwin, err := twin.ReadTopOuts()
	if err != nil {
		return
	}
	twinOuts := Canon(twin.normFiles(actTwin))
	var cands []*JobRec
	twinArgs := map[string]string{}
	for _, j := range twin.Jobs {
		if j.Monitor {
			cands = append(cands, j)
		}
		twinArgs[j.Key()+":"+j.Phase] = Canon(twin.normFiles(j.Args))
	}
	if len(cands) == 0 {
		c.Res.Class = "stale-no-monitored-job"
		return
	}
	j := cands[c.Plan.Draw(len(cands))]
	end := staleEnds[c.Plan.Draw(len(staleEnds))]
	lingers := c.Plan.Draw(4) == 0 || os.Getenv("VERIF_C11_LINGERS") != ""
	if lingers {
		// the given-up attempt comes back and carries on for hours, heartbeats and all,
		// while its replacement hangs without a sign of life: the old attempt's
		// heartbeats are not the new one's - mrp has to notice the silence within its
		// timeout (an hour) and retry once more
		end = "stale-lingers"
		var mains []*JobRec
		for _, x := range cands {
			if x.Phase == "main" {
				mains = append(mains, x)
			}
		}
		if len(mains) > 0 {
			j = mains[c.Plan.Draw(len(mains))]
		}
		c.Res.Probes["stale-attempt-lingers-runs"]++
	}
	key := j.Key() + ":" + j.Phase
	cfg := &RunCfg{Prog: prog, FCfg: fcfg, MaxSteps: 150000, Flags: flags,
		WMrp: base.WMrp, WJob: base.WJob, WAux: base.WAux, WTime: base.WTime,
		MapMode: base.MapMode, MapSalt: base.MapSalt}
	cfg.JobFaults = map[string]string{key + "#1": end}
	if lingers {
		cfg.JobFaults[key+"#2"] = "hang-silent"
		// room for three attempts side by side: mrp does not kill a local job it has
		// given up, and its process keeps its cores and memory until it exits
		cfg.Flags = []string{"--localcores=4", "--localmem=8", "--vdrmode=disable", "--autoretry=2"}
	}
	var givenUpAfter time.Duration // how long after its start mrp declared the silent replacement dead
	var setup func(r *Run)
	if lingers {
		setup = func(r *Run) {
			r.StepHooks = append(r.StepHooks, func() {
				if givenUpAfter != 0 {
					return
				}
				for _, o := range r.Jobs {
					if o.Fault == "hang-silent" && o.Key() == j.Key() && o.Phase == j.Phase {
						if _, err := os.Stat(path.Join(o.MetaPath, "_errors")); err == nil {
							givenUpAfter = time.Since(r.Start) - o.StartAt
						}
					}
				}
			})
		}
	}
	r := c.RunOnce(cfg, setup)
	c.Res.Class = "stale-checked"
	returned := r.Faults["stale-attempt-returned:"+end] > 0
	c.Res.Nontrivial = returned
	c.Res.Probes["stale-attempt-runs"]++
	if returned {
		c.Res.Probes["stale-attempt-returned"]++
	}
	add := func(oracle, msg string) {
		c.Res.Violations = append(c.Res.Violations, Violation{"C11", oracle,
			fmt.Sprintf("attempt 1 of %s went silent, was given up after the heartbeat timeout and retried, then came back (%s): %s", key, end, msg), r.Steps})
	}
	if lingers {
		var a2, a3 *JobRec
		n := 0
		for _, o := range r.Jobs {
			if o.Key() == j.Key() && o.Phase == j.Phase {
				n++
				if n == 2 {
					a2 = o
				} else if n == 3 {
					a3 = o
				}
			}
		}
		if a2 != nil && a2.Fault == "hang-silent" {
			c.Res.Probes["silent-replacement-next-to-lingering-attempt"]++
			_ = a3
			if givenUpAfter == 0 {
				if r.Class() != "step-budget" {
					add("silent-attempt-kept-alive-by-foreign-heartbeats", fmt.Sprintf("the replacement (attempt 2) hung without a sign of life and was never given up (run ended %s)", r.Class()))
				}
			} else if givenUpAfter > 150*time.Minute {
				add("silent-attempt-kept-alive-by-foreign-heartbeats", fmt.Sprintf("the replacement (attempt 2) hung without a sign of life; mrp gave it up only %v after its start (heartbeat timeout: 60 minutes) - as long as attempt 1 kept writing heartbeats under its own uniquifier", givenUpAfter))
			}
		}
	}
	if r.Class() == "step-budget" {
		c.Res.Class = "stale-step-budget"
	} else if r.Class() != "complete" {
		if returned || r.Class() != "failed" {
			add("stale-attempt-broke-the-run", fmt.Sprintf("run ended %s (exit codes %v): %s", r.Class(), r.ExitCodes, lastLines(r.outBuf.String(), 8)))
		} else {
			// never given up / never came back and the run failed: not this fault's business
			c.Res.Notes = append(c.Res.Notes, "stale fault: run failed before the attempt returned: "+lastLines(r.outBuf.String(), 4))
		}
	} else {
		act, err := r.ReadTopOuts()
		if err != nil {
			add("stale-attempt-broke-the-run", "no top-level outputs: "+err.Error())
		} else if got := Canon(r.normFiles(act)); got != twinOuts {
			add("stale-attempt-changed-outputs", fmt.Sprintf("top-level outputs %s, undisturbed run %s", got, twinOuts))
		}
		for _, o := range r.Jobs {
			if o.Stale || o.Args == nil {
				continue
			}
			k := o.Key() + ":" + o.Phase
			if want, ok := twinArgs[k]; ok {
				if got := Canon(r.normFiles(o.Args)); got != want {
					add("stale-attempt-reached-a-consumer", fmt.Sprintf("job %s received %s, in the undisturbed run %s", k, got, want))
					break
				}
			}
		}
	}
	if len(c.Res.Violations) > 0 || c.Keep || c.Res.Sample == nil {
		s := describeRun(r, true)
		s["fault"] = map[string]interface{}{"job": key, "stale_attempt_end": end, "returned": returned}
		s["twin_outs"] = twinOuts
		c.Res.Sample = s
	}
}

// c11Stall: the whole machine freezes (hung file server, suspended VM) for longer
// than the heartbeat timeout while jobs are running.  When it comes back, mrp may see
// heartbeats that are more than an hour old before the jobs' monitors get to write
// new ones: it gives the running attempts up, retries them (transient failure,
// --autoretry=2) under new uniquifiers - and every one of the old attempts is still
// alive and carries on.  Several superseded attempts at once race with their
// replacements; none of what they write may be attributed to the new attempts: the
// run completes with the undisturbed run's outputs, and no job receives an argument
// the undisturbed run did not deliver.
func c11Stall(c *Ctx) {
	gcfg := swarmGen(c.Plan, c.thorough())
	gcfg.TypedMaps, gcfg.MapCalls = true, true
	gcfg.AdvKeys = AdvKeys
	gcfg.MapBias = true
	gcfg.ExecStages = false // monitored jobs have heartbeats
	prog := Generate(c.Plan, gcfg)
	if c.Plan.Draw(3) == 0 {
		prog = templateForkOrderProg(c.Plan)
	}
	fcfg := &FCfg{MaxLen: 1 + c.Plan.Draw(3), MaxChunks: 1 + c.Plan.Draw(3), Salt: fmt.Sprintf("c11m%d", c.Plan.Draw(100)), KeyAlphabet: AdvKeys}
	flags := append(baseFlags(c.Plan), "--vdrmode=disable", "--autoretry=2")
	base := &RunCfg{Prog: prog, FCfg: fcfg, MaxSteps: 80000, Flags: flags}
	swarmSched(c.Plan, base)
	twin := c.RunOnce(base, nil)
	c.Res.Shape = progShape(prog)
	c.Res.Class = "stall-twin-" + twin.Class()
	if twin.Class() == "step-limit" || twin.Class() == "stalled" {
		c.Res.Violations = append(c.Res.Violations, Violation{"C11", "mapped-call-never-completes",
			"undisturbed run did not terminate: " + lastLines(twin.outBuf.String(), 8), twin.Steps})
		c.Res.Sample = describeRun(twin, true)
		return
	}
	if twin.Class() != "complete" || len(twin.Panics) > 0 {
		return
	}
	actTwin, err := twin.ReadTopOuts()
	if err != nil {
		return
	}
	twinOuts := Canon(twin.normFiles(actTwin))
	twinArgs := map[string]string{}
	for _, j := range twin.Jobs {
		twinArgs[j.Key()+":"+j.Phase] = Canon(twin.normFiles(j.Args))
	}
	n := 2
	if c.thorough() {
		n = 6
	}
	for i := 0; i < n; i++ {
		// the freeze comes while one to three monitored jobs are in a long computation
		// (ten simulated minutes, heartbeats every two): mrp has seen them running
		var mon []*JobRec
		for _, j := range twin.Jobs {
			if j.Monitor {
				mon = append(mon, j)
			}
		}
		if len(mon) == 0 {
			c.Res.Class = "stall-no-monitored-job"
			return
		}
		faults := map[string]string{}
		for k := 0; k < 1+c.Plan.Draw(3); k++ {
			j := mon[c.Plan.Draw(len(mon))]
			faults[j.Key()+":"+j.Phase+"#1"] = "slow"
		}
		atJob := 0
		at := 1 + c.Plan.Draw(120)
		d := []time.Duration{61 * time.Minute, 75 * time.Minute, 3 * time.Hour, 59 * time.Minute}[c.Plan.Draw(4)]
		cfg := &RunCfg{Prog: prog, FCfg: fcfg, MaxSteps: 150000, Flags: flags,
			WMrp: []int{3, 10, 30}[c.Plan.Draw(3)], WJob: 1, WAux: base.WAux, WTime: 1 + c.Plan.Draw(3),
			MapMode: base.MapMode, MapSalt: base.MapSalt, MarkSuperseded: true,
			JobFaults: faults, Stalls: []StallSpec{{AtStep: at, AtSlow: true, D: d}}}
		r := c.RunOnce(cfg, nil)
		c.Res.Class = "stall-checked"
		c.Res.Probes["machine-stall-runs"]++
		given := r.Faults["superseded-attempt-finished"]
		if given > 0 {
			c.Res.Probes["runs-with-superseded-attempts"]++
			c.Res.Nontrivial = true
		}
		if given > 1 {
			c.Res.Probes["runs-with-several-superseded-attempts"]++
		}
		add := func(oracle, msg string) {
			c.Res.Violations = append(c.Res.Violations, Violation{"C11", oracle,
				fmt.Sprintf("every process frozen for %v, %d steps into the long computation of %v (job %d); %d attempts were given up by mrp, retried, and finished afterwards: %s", d, at, faults, atJob, given, msg), r.Steps})
		}
		if len(r.Panics) > 0 {
			c.Res.Violations = append(c.Res.Violations, Violation{"OBS", "mrp-panic", firstLines(r.Panics[0], 14), r.Steps})
			continue
		}
		if r.Class() == "step-budget" {
			c.Res.Probes["stall-step-budget"]++
			continue
		} else if r.Class() != "complete" {
			add("stall-broke-the-run", fmt.Sprintf("run ended %s (exit codes %v): %s", r.Class(), r.ExitCodes, lastLines(r.outBuf.String(), 8)))
		} else {
			act, err := r.ReadTopOuts()
			if err != nil {
				add("stall-broke-the-run", "no top-level outputs: "+err.Error())
			} else if got := Canon(r.normFiles(act)); got != twinOuts {
				add("superseded-attempt-changed-outputs", fmt.Sprintf("top-level outputs %s, undisturbed run %s", got, twinOuts))
			}
			for _, o := range r.Jobs {
				if o.Stale || o.Args == nil {
					continue
				}
				k := o.Key() + ":" + o.Phase
				if want, ok := twinArgs[k]; ok {
					if got := Canon(r.normFiles(o.Args)); got != want {
						add("superseded-attempt-reached-a-consumer", fmt.Sprintf("job %s received %s, in the undisturbed run %s", k, got, want))
						break
					}
				}
			}
		}
		if len(c.Res.Violations) > 0 || c.Keep || c.Res.Sample == nil {
			s := describeRun(r, true)
			s["fault"] = map[string]interface{}{"stall_steps_into_slow_jobs": at, "slow_jobs": faults, "stall": d.String(), "superseded_attempts": given}
			s["twin_outs"] = twinOuts
			c.Res.Sample = s
		}
		if len(c.Res.Violations) > 0 {
			return
		}
	}
}


// c11QuickRetry: a job fails in a transient way and is retried at once
// (--retry-wait=0): the new attempt is made within the second in which the failed one
// was (the uniquifier is made of the pid and the second, so both attempts may bear the
// same one).  Nothing the failed attempt left - its error, its log, its job info - may be
// taken for the new attempt's: the run completes with the undisturbed run's outputs, and
// every job receives what it received there.
func c11QuickRetry(c *Ctx) {
	gcfg := swarmGen(c.Plan, c.thorough())
	gcfg.TypedMaps, gcfg.MapCalls = true, true
	gcfg.AdvKeys = AdvKeys
	gcfg.MapBias = true
	prog := Generate(c.Plan, gcfg)
	if c.Plan.Draw(3) == 0 {
		prog = templateForkOrderProg(c.Plan)
	}
	fcfg := &FCfg{MaxLen: 1 + c.Plan.Draw(3), MaxChunks: 1 + c.Plan.Draw(3), Salt: fmt.Sprintf("c11q%d", c.Plan.Draw(100)), KeyAlphabet: AdvKeys}
	flags := append(baseFlags(c.Plan), "--vdrmode=disable", "--autoretry=2", "--retry-wait=0")
	base := &RunCfg{Prog: prog, FCfg: fcfg, MaxSteps: 80000, Flags: flags}
	swarmSched(c.Plan, base)
	twin := c.RunOnce(base, nil)
	c.Res.Shape = progShape(prog)
	c.Res.Class = "quick-retry-twin-" + twin.Class()
	if twin.Class() != "complete" || len(twin.Panics) > 0 || len(twin.Jobs) == 0 {
		return
	}
	actTwin, err := twin.ReadTopOuts()
	if err != nil {
		return
	}
	twinOuts := Canon(twin.normFiles(actTwin))
	twinArgs := map[string]string{}
	for _, j := range twin.Jobs {
		twinArgs[j.Key()+":"+j.Phase] = Canon(twin.normFiles(j.Args))
	}
	n := 2
	if c.thorough() {
		n = 6
	}
	c.Res.Class = "quick-retry-checked"
	for i := 0; i < n; i++ {
		j := twin.Jobs[c.Plan.Draw(len(twin.Jobs))]
		f := []string{"transient-error", "die-signal", "die-early", "late-transient-error"}[c.Plan.Draw(4)]
		key := j.Key() + ":" + j.Phase
		cfg := &RunCfg{Prog: prog, FCfg: fcfg, MaxSteps: 100000, Flags: flags,
			WMrp: base.WMrp, WJob: base.WJob, WAux: base.WAux, WTime: base.WTime,
			MapMode: base.MapMode, MapSalt: base.MapSalt}
		cfg.JobFaults = map[string]string{key + "#1": f}
		if c.Plan.Draw(3) == 0 {
			cfg.JobFaults[key+"#2"] = f // fails twice, the third attempt is the last one allowed
		}
		r := c.RunOnce(cfg, nil)
		c.Res.Probes["quick-retry-runs"]++
		c.Res.Nontrivial = true
		add := func(oracle, msg string) {
			c.Res.Violations = append(c.Res.Violations, Violation{"C11", oracle,
				fmt.Sprintf("%s of %s on its first attempt%s, retried at once (--retry-wait=0): %s", f, key, map[bool]string{true: " and its second", false: ""}[len(cfg.JobFaults) > 1], msg), r.Steps})
		}
		if len(r.Panics) > 0 {
			c.Res.Violations = append(c.Res.Violations, Violation{"OBS", "mrp-panic", firstLines(r.Panics[0], 14), r.Steps})
			continue
		}
		switch r.Class() {
		case "step-budget":
			continue
		case "complete":
			act, err := r.ReadTopOuts()
			if err != nil {
				add("retried-attempt-broke-the-run", "no top-level outputs: "+err.Error())
			} else if got := Canon(r.normFiles(act)); got != twinOuts {
				add("failed-attempt-changed-outputs", fmt.Sprintf("top-level outputs %s, undisturbed run %s", got, twinOuts))
			}
			for _, o := range r.Jobs {
				if o.Args == nil {
					continue
				}
				k := o.Key() + ":" + o.Phase
				if want, ok := twinArgs[k]; ok {
					if got := Canon(r.normFiles(o.Args)); got != want {
						add("failed-attempt-reached-a-consumer", fmt.Sprintf("job %s received %s, in the undisturbed run %s", k, got, want))
						break
					}
				}
			}
		default:
			add("failed-attempt-taken-for-its-retry", fmt.Sprintf("run ended %s (exit codes %v): %s", r.Class(), r.ExitCodes, lastLines(r.outBuf.String(), 8)))
		}
		if len(c.Res.Violations) > 0 || c.Res.Sample == nil {
			s := describeRun(r, true)
			s["fault"] = map[string]interface{}{"job": key, "failure": f, "attempts_failing": len(cfg.JobFaults)}
			s["twin_outs"] = twinOuts
			c.Res.Sample = s
		}
		if len(c.Res.Violations) > 0 {
			return
		}
	}
}
