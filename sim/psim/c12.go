package psim

import (
	"fmt"
	"os"
	"strings"
	"testing/synctest"

	"github.com/martian-lang/martian/martian/core"
	"github.com/martian-lang/martian/martian/verifsim/vos"
	"github.com/martian-lang/martian/martian/verifsim/vproc"
	"github.com/martian-lang/martian/martian/verifsim/vrt"
)

// ---------------------------------------------------------------------------
// C12: resource limits are never exceeded and never stall the pipestance.
//
// Semaphore tier: the real core.ResourceSemaphore / core.MaxJobsSemaphore with
// seeded client tasks (acquire, release, availability updates), one controller
// decision at a time; property-level invariants are evaluated at every
// quiescent point (no mirror of the implementation: only "reserved <= limit",
// "grants in request order", "a head request that fits is not left waiting",
// "everything that fits is eventually granted").
//
// System tier: real mrp with the real LocalJobManager under tight --localcores /
// --localmem, stages asking for fractional / zero / negative / oversized
// resources, seeded free-memory weather; invariant at every step: the summed
// reservations recorded in _jobinfo of live local jobs stay within the limits;
// liveness: the pipestance completes.
// ---------------------------------------------------------------------------

type semClient struct {
	id       int
	amount   int64
	state    string // idle, requested, holding, error
	reqSeq   int    // order of the request (controller step at which Acquire was entered)
	batch    int    // requests issued in the same batch run concurrently: their queue order is the schedule's choice
	grantSeq int
}

func semResourceCase(c *Ctx) []Violation {
	var out []Violation
	plan, sched := c.Plan, c.Sched
	max := int64(4 + plan.Draw(60))
	nclients := 2 + plan.Draw(5)
	nops := 20 + plan.Draw(60)
	InBubble(c.T, func() {
		vrt.Reset()
		vos.Reset("")
		vproc.Reset(100)
		vrt.LockYield = true
		sem := core.NewResourceSemaphore(max, core.DefaultResourceFormatter("units"))
		proc := vproc.NewProc("harness", "sem", nil, nil, "", nil)
		clients := make([]*semClient, nclients)
		cmd := make([]chan string, nclients)
		seq := 0
		// each client is a task which executes the commands it is handed
		for i := range clients {
			cl := &semClient{id: i, state: "idle"}
			clients[i] = cl
			ch := make(chan string, 1)
			cmd[i] = ch
			vrt.Go(fmt.Sprintf("client%d", i), proc, func() {
				for op := range ch {
					vrt.Yield("cmd")
					switch op {
					case "acquire":
						if err := sem.Acquire(cl.amount); err != nil {
							cl.state = "error"
						} else {
							cl.state = "holding"
							seq++
							cl.grantSeq = seq
						}
					case "release":
						sem.Release(cl.amount)
						cl.state = "idle"
					}
				}
			})
		}
		updates := make(chan func(), 1)
		vrt.Go("updater", proc, func() {
			for f := range updates {
				vrt.Yield("cmd")
				f()
			}
		})
		violate := func(oracle, msg string) {
			out = append(out, Violation{"C12", oracle, msg, seq})
		}
		step := func() {
			// run until nothing is runnable
			for k := 0; k < 3000; k++ {
				synctest.Wait()
				parked := vrt.Parked()
				if len(parked) == 0 {
					return
				}
				vrt.Release(parked[sched.Draw(len(parked))], vrt.FaultNone)
			}
		}
		check := func(ctx string) {
			// I1: reserved never exceeds the hard limit
			if sem.Reserved() > max {
				violate("reserved-exceeds-limit", fmt.Sprintf("%s: reserved %d > limit %d", ctx, sem.Reserved(), max))
			}
			var held int64
			var waiting []*semClient
			for _, cl := range clients {
				if cl.state == "holding" {
					held += cl.amount
				}
				if cl.state == "requested" {
					waiting = append(waiting, cl)
				}
			}
			if held != sem.Reserved() {
				violate("reservation-accounting", fmt.Sprintf("%s: clients hold %d but the semaphore has %d reserved", ctx, held, sem.Reserved()))
			}
			if len(waiting) != sem.QueueLength() {
				violate("queue-accounting", fmt.Sprintf("%s: %d clients wait but queue length is %d", ctx, len(waiting), sem.QueueLength()))
			}
			// I3: the oldest waiting request does not fit (else it must have been granted)
			// (requests issued in one batch entered the queue in an order the
			// schedule chose: any of the oldest batch may be the head, so all of
			// them must fit before "the head fits" is certain)
			var head *semClient
			for _, w := range waiting {
				if head == nil || w.batch < head.batch {
					head = w
				}
			}
			if head != nil {
				allFit := true
				var biggest int64
				for _, w := range waiting {
					if w.batch == head.batch {
						if sem.Available() < w.amount {
							allFit = false
						}
						if w.amount > biggest {
							biggest = w.amount
						}
					}
				}
				if allFit {
					violate("head-fits-but-waits", fmt.Sprintf("%s: oldest request (at most %d units) fits the available %d (size %d, reserved %d) but is still waiting: lost wake-up",
						ctx, biggest, sem.Available(), sem.CurrentSize(), sem.Reserved()))
				}
			}
		}
		granted := func() map[int]int {
			m := map[int]int{}
			for _, cl := range clients {
				if cl.state == "holding" {
					m[cl.id] = cl.grantSeq
				}
			}
			return m
		}
		step()
		batch := 0
		for op := 0; op < nops && len(out) == 0; op++ {
			before := granted()
			var waitingBefore []*semClient
			for _, w := range clients {
				if w.state == "requested" {
					waitingBefore = append(waitingBefore, w)
				}
			}
			// one to three operations are issued together and run concurrently
			// (an Acquire racing a Release or an availability update is where a
			// wake-up can get lost)
			nb := 1
			if plan.Draw(3) == 0 {
				nb = 2 + plan.Draw(2)
			}
			batch++
			used := map[int]bool{}
			usedUpd := false
			ctx := ""
			for b := 0; b < nb; b++ {
				cl := clients[plan.Draw(nclients)]
				k := plan.Draw(10)
				if used[cl.id] {
					continue
				}
				switch {
				case k < 4 && cl.state == "idle":
					cl.amount = int64(plan.Draw(int(max) + 3)) // may exceed the limit by up to 2
					if plan.Draw(6) == 0 {
						cl.amount = 0
					}
					seq++
					cl.reqSeq = seq
					cl.batch = batch
					cl.state = "requested"
					used[cl.id] = true
					ctx += fmt.Sprintf("acquire(%d) by client %d; ", cl.amount, cl.id)
					cmd[cl.id] <- "acquire"
				case k < 7 && cl.state == "holding":
					ctx += fmt.Sprintf("release(%d) by client %d; ", cl.amount, cl.id)
					cl.state = "releasing"
					used[cl.id] = true
					cmd[cl.id] <- "release"
				case k == 7 && !usedUpd:
					n := int64(plan.Draw(int(max)*2 + 1))
					ctx += fmt.Sprintf("UpdateActual(%d); ", n)
					usedUpd = true
					updates <- func() { sem.UpdateActual(n) }
				case k == 8 && !usedUpd:
					// UpdateSize is only used with sizes up to the hard limit (soft vs.
					// hard process rlimit); larger values are outside its contract
					n := int64(plan.Draw(int(max) + 1))
					ctx += fmt.Sprintf("UpdateSize(%d); ", n)
					usedUpd = true
					updates <- func() { sem.UpdateSize(n) }
				case k == 9 && !usedUpd:
					free, used := int64(plan.Draw(int(max)*2+1)), int64(plan.Draw(int(max)+1))
					ctx += fmt.Sprintf("UpdateFreeUsed(%d,%d); ", free, used)
					usedUpd = true
					updates <- func() { sem.UpdateFreeUsed(free, used) }
				}
			}
			if ctx == "" {
				continue
			}
			if len(used) > 1 || (len(used) == 1 && usedUpd) {
				c.Res.Probes["semaphore-concurrent-batches"]++
			}
			step()
			// a request larger than the limit is an error, never a grant
			for _, cl := range clients {
				if cl.state == "holding" && cl.amount > max {
					violate("oversized-request-granted", fmt.Sprintf("%s: %d > limit %d was granted", ctx, cl.amount, max))
				}
			}
			// I2: among requests that were waiting, grants follow request order
			// (requests of one batch are concurrent: either order is legal)
			after := granted()
			for _, w := range waitingBefore {
				if _, ok := after[w.id]; ok {
					if _, was := before[w.id]; was {
						continue
					}
					for _, o := range waitingBefore {
						if o.batch < w.batch && o.state == "requested" {
							violate("granted-out-of-order", fmt.Sprintf("%s: request of client %d (seq %d) granted while older request of client %d (seq %d) still waits",
								ctx, w.id, w.reqSeq, o.id, o.reqSeq))
						}
					}
				}
			}
			check(ctx)
		}
		// I5: bounded liveness: release everything, restore capacity: all waiters that fit get served
		if len(out) == 0 {
			for round := 0; round < nclients+2; round++ {
				for _, cl := range clients {
					if cl.state == "holding" {
						cl.state = "releasing"
						cmd[cl.id] <- "release"
						step()
					}
				}
				updates <- func() { sem.UpdateSize(max) }
				step()
			}
			for _, cl := range clients {
				if cl.state == "requested" && cl.amount <= max {
					violate("request-never-granted", fmt.Sprintf("client %d asking for %d of %d is still waiting after all holders released and capacity was restored",
						cl.id, cl.amount, max))
				}
			}
		}
		vrt.Deactivate()
	})
	c.Res.Runs++
	c.Res.Probes["semaphore-op-sequences"]++
	return out
}

func semMaxJobsCase(c *Ctx) []Violation {
	var out []Violation
	plan, sched := c.Plan, c.Sched
	limit := 1 + plan.Draw(4)
	nclients := 2 + plan.Draw(6)
	nops := 20 + plan.Draw(40)
	InBubble(c.T, func() {
		vrt.Reset()
		vos.Reset("")
		vproc.Reset(100)
		vrt.LockYield = true
		sem := core.NewMaxJobsSemaphore(limit)
		proc := vproc.NewProc("harness", "sem", nil, nil, "", nil)
		type mj struct {
			md    *core.Metadata
			state string // idle, waiting, holding
		}
		cl := make([]*mj, nclients)
		cmd := make([]chan string, nclients)
		for i := range cl {
			m := &mj{md: core.VerifNewMetadata(fmt.Sprintf("job%d", i), "queued"), state: "idle"}
			cl[i] = m
			ch := make(chan string, 1)
			cmd[i] = ch
			vrt.Go(fmt.Sprintf("client%d", i), proc, func() {
				for op := range ch {
					vrt.Yield("cmd")
					switch op {
					case "acquire":
						if sem.Acquire(m.md, false) {
							m.state = "holding"
						} else {
							m.state = "idle"
						}
					case "release":
						sem.Release(m.md)
						m.state = "idle"
					}
				}
			})
		}
		misc := make(chan func(), 1)
		vrt.Go("runloop", proc, func() {
			for f := range misc {
				vrt.Yield("cmd")
				f()
			}
		})
		step := func() {
			for k := 0; k < 3000; k++ {
				synctest.Wait()
				parked := vrt.Parked()
				if len(parked) == 0 {
					return
				}
				vrt.Release(parked[sched.Draw(len(parked))], vrt.FaultNone)
			}
		}
		violate := func(oracle, msg string) { out = append(out, Violation{"C12", oracle, msg, 0}) }
		check := func(ctx string) {
			if sem.Current() > limit {
				violate("maxjobs-exceeded", fmt.Sprintf("%s: %d jobs hold a slot, limit %d", ctx, sem.Current(), limit))
			}
			holding, waiting := 0, 0
			for _, m := range cl {
				if m.state == "holding" {
					holding++
				}
				if m.state == "waiting" {
					waiting++
				}
			}
			if holding > limit {
				violate("maxjobs-exceeded", fmt.Sprintf("%s: %d clients were granted, limit %d", ctx, holding, limit))
			}
			if waiting > 0 && sem.Current() < limit {
				violate("slot-free-but-waiter-blocked", fmt.Sprintf("%s: %d clients wait although only %d of %d slots are taken: lost wake-up",
					ctx, waiting, sem.Current(), limit))
			}
		}
		step()
		for op := 0; op < nops && len(out) == 0; op++ {
			nb := 1
			if plan.Draw(3) == 0 {
				nb = 2 + plan.Draw(2)
			}
			used := map[*mj]bool{}
			usedMisc := false
			ctx := ""
			for b := 0; b < nb; b++ {
				m := cl[plan.Draw(nclients)]
				k := plan.Draw(9)
				if used[m] {
					continue
				}
				switch {
				case k < 3 && m.state == "idle":
					core.VerifSetMetadataState(m.md, "queued")
					m.state = "waiting"
					used[m] = true
					ctx += "acquire " + fmt.Sprint(m.md.VerifLabel()) + "; "
					for i := range cl {
						if cl[i] == m {
							cmd[i] <- "acquire"
						}
					}
				case k < 5 && m.state == "holding":
					// the job ends: state changes and the run loop releases the slot
					core.VerifSetMetadataState(m.md, "complete")
					m.state = "releasing"
					used[m] = true
					ctx += "release; "
					for i := range cl {
						if cl[i] == m {
							cmd[i] <- "release"
						}
					}
				case k == 5 && m.state == "holding" && !usedMisc:
					// the job finished but nobody called endJob: FindDone must notice
					core.VerifSetMetadataState(m.md, "complete")
					m.state = "idle"
					used[m] = true
					usedMisc = true
					ctx += "job done, FindDone; "
					misc <- func() { sem.FindDone() }
				case k == 6 && !usedMisc:
					usedMisc = true
					ctx += "FindDone; "
					misc <- func() { sem.FindDone() }
				case k == 7 && m.state == "waiting":
					// the job is cancelled (its metadata fails) while it waits for a
					// slot: when it is woken it must give up and pass the wake-up on
					core.VerifSetMetadataState(m.md, "failed")
					m.state = "cancelled"
					used[m] = true
					ctx += "cancel waiting " + fmt.Sprint(m.md.VerifLabel()) + "; "
					c.Res.Probes["maxjobs-waiter-cancelled"]++
				}
			}
			if ctx == "" {
				continue
			}
			if len(used) > 1 {
				c.Res.Probes["maxjobs-concurrent-batches"]++
			}
			step()
			check(ctx)
		}
		vrt.Deactivate()
	})
	c.Res.Runs++
	c.Res.Probes["maxjobs-op-sequences"]++
	return out
}

// ---- system tier ----

func weatherFor(salt uint64) func(probe string, w *vos.WeatherState) {
	n := 0
	return func(probe string, w *vos.WeatherState) {
		if probe != "meminfo" {
			return
		}
		n++
		// phases of scarce memory, always returning to plenty
		phase := (uint64(n)/7 + salt) % 5
		switch phase {
		case 0:
			w.MemFreeBytes = 1 << 30
		case 1:
			w.MemFreeBytes = 3 << 30
		default:
			w.MemFreeBytes = 200 << 30
		}
	}
}

func c12System(c *Ctx) {
	gcfg := swarmGen(c.Plan, c.thorough())
	gcfg.Resources = true
	gcfg.Splits = true
	prog := Generate(c.Plan, gcfg)
	cores := 1 + c.Plan.Draw(4)
	mem := 1 + c.Plan.Draw(6)
	cfg := &RunCfg{Prog: prog, FCfg: &FCfg{MaxLen: 1 + c.Plan.Draw(3), MaxChunks: 1 + c.Plan.Draw(3), Salt: "c12"},
		MaxSteps: 120000, ChunkRes: true}
	cfg.Flags = []string{fmt.Sprintf("--localcores=%d", cores), fmt.Sprintf("--localmem=%d", mem), "--vdrmode=disable"}
	if c.Plan.Draw(3) == 0 {
		cfg.Flags = append(cfg.Flags, "--limit-loadavg")
	}
	// a third of the system cases run in cluster mode: jobs go through the
	// (simulated) scheduler's submit command under --maxjobs
	cluster := c.Plan.Draw(3) == 0 || os.Getenv("VERIF_C12_RESTART") != ""
	maxJobs := 1 + c.Plan.Draw(4)
	if cluster {
		cfg.JobMode = "sge"
		cfg.Flags = append(cfg.Flags, fmt.Sprintf("--maxjobs=%d", maxJobs), fmt.Sprintf("--jobinterval=%d", []int{0, 100, 2000}[c.Plan.Draw(3)]))
		c.Res.Probes["cluster-mode-runs"]++
	}
	if c.Plan.Draw(4) == 0 {
		// --overrides replaces the requests of single stages or whole sub-pipelines,
		// per phase: fractional, zero, negative and oversized values among them
		stages, pipes := stageNodes(prog)
		all := append(append([]string{}, stages...), pipes...)
		ov := map[string]map[string]interface{}{}
		for i := 0; i < 1+c.Plan.Draw(4); i++ {
			n := all[c.Plan.Draw(len(all))]
			if ov[n] == nil {
				ov[n] = map[string]interface{}{}
			}
			key := []string{"chunk.threads", "chunk.mem_gb", "split.threads", "split.mem_gb", "join.threads", "join.mem_gb", "chunk.vmem_gb"}[c.Plan.Draw(7)]
			ov[n][key] = []float64{1, 2, 0.5, 1.5, 2.5, 4.01, 16, 64, 0, -1, -2, 3}[c.Plan.Draw(12)]
		}
		cfg.Overrides = ov
		c.Res.Probes["runs-with-resource-overrides"]++
	}
	if cluster && c.Plan.Draw(2) == 0 {
		// wide stages: many chunks become ready at once and compete for the slots
		prog = templateChunksProg(c.Plan)
		cfg.Prog = prog
		c.Res.Probes["wide-split-template"]++
	}
	if cluster && (c.Plan.Draw(2) == 0 || os.Getenv("VERIF_C12_RESTART") != "") {
		// many chunks for few slots: at the kill some wait locally for a slot while
		// others already sit in the cluster's queue
		cfg.FCfg.MaxChunks = 3 + c.Plan.Draw(5)
		// mrp is killed and restarted while jobs sit in the cluster's queue or run:
		// the new instance has to count them against --maxjobs again
		cfg.Crashes = []CrashSpec{{Inc: 1, AtGate: 60 + c.Plan.Draw(300), Kind: "kill"}}
		if c.Plan.Draw(3) > 0 {
			// ... at a moment when every slot is taken, so that further jobs of the
			// pipestance are waiting for one
			cfg.Crashes[0].When = func(r *Run) bool {
				live := 0
				for _, cj := range r.Cluster {
					if cj.Live() {
						live++
					}
				}
				return live >= maxJobs
			}
		}
		cfg.Restarts = 1
		// long jobs: what the first instance submitted is still there when the
		// second one starts submitting
		cfg.AllSlow = c.Plan.Draw(3) > 0
		c.Res.Probes["cluster-mode-runs-with-restart"]++
	}
	// a third of the local cases limit the address space too (--localvmem): a third
	// semaphore after cores and memory; stages and chunks ask for vmem_gb of their
	// own (fractional, zero = memory + the configured extra, negative, oversized)
	vmem := 0
	if !cluster && (c.Plan.Draw(3) == 0 || os.Getenv("VERIF_C12_VMEM") != "") {
		vmem = mem + []int{0, 1, 3, 4, 8}[c.Plan.Draw(5)]
		cfg.Flags = append(cfg.Flags, fmt.Sprintf("--localvmem=%d", vmem))
		cfg.ChunkVMem = true
		if c.Plan.Draw(2) == 0 {
			gcfg.VMem = true
			prog = Generate(c.Plan, gcfg)
			cfg.Prog = prog
			cfg.Overrides = nil
		}
		c.Res.Probes["runs-with-localvmem"]++
	}
	maxVMem := 0.0
	swarmSched(c.Plan, cfg)
	cfg.WJob = 1 // jobs are slow relative to mrp: reservations overlap
	if cfg.WTime == 0 {
		cfg.WTime = 1
	}
	weather := c.Plan.Draw(2) == 0
	salt := uint64(c.Plan.Draw(1000))
	maxThreads, maxMem := 0.0, 0.0
	maxLive := 0
	var viol []Violation
	kfSeen, realSeen := false, false
	r := c.RunOnce(cfg, func(r *Run) {
		if weather {
			r.PreStart = func() { vos.WeatherHook = weatherFor(salt) }
		}
		r.StepHooks = append(r.StepHooks, func() {
			th, mg, vm := 0.0, 0.0, 0.0
			n := 0
			for _, j := range r.Jobs {
				if j.proc.Exited || j.proc.Dead || j.JobType != "local" {
					continue
				}
				th += j.Threads
				mg += j.MemGB
				vm += j.VMemGB
				n++
			}
			if th > maxThreads {
				maxThreads = th
			}
			if mg > maxMem {
				maxMem = mg
			}
			if th > float64(cores)+1e-9 && len(viol) == 0 {
				viol = append(viol, Violation{"C12", "local-cores-exceeded", fmt.Sprintf("%d live local jobs reserve %.2f threads in total, --localcores=%d", n, th, cores), r.Steps})
			}
			if cluster {
				// (a job which has recorded its completion or failure no longer counts,
				// even if its process is still winding down)
				busy := func(cj *ClusterJob) bool { return cj.Live() && (cj.Rec == nil || cj.Rec.EndSeq == 0) }
				live := 0
				for _, cj := range r.Cluster {
					if busy(cj) {
						live++
					}
				}
				if live > maxLive {
					maxLive = live
				}
				if live > maxJobs && !realSeen {
					// jobs of an earlier incarnation which were already running when
					// this one attached: martian counts re-attached jobs only while
					// they are still queued (known finding KF-C12-1)
					// "when this one attached": the new instance scans the job states at
					// the end of Runtime.reattachToPipestance; the next thing cmd/mrp does
					// is to open the pipestance's _log
					attached := 1 << 60
					for _, ev := range vos.W.Events {
						if ev.Pid == r.Mrp.Pid && ev.Path == "ps/_log" {
							attached = ev.Seq
							break
						}
					}
					old := 0
					for _, cj := range r.Cluster {
						if busy(cj) && cj.Inc < r.Inc && cj.Rec != nil && cj.Rec.StartSeq < attached {
							old++
						}
					}
					if live-old <= maxJobs {
						if kfSeen {
							return
						}
						kfSeen = true
						viol = append(viol, Violation{"C12", "maxjobs-exceeded-by-jobs-running-since-before-restart", fmt.Sprintf("%d jobs are queued or running on the cluster, --maxjobs=%d; %d of them were submitted by an earlier mrp and already running when this one attached", live, maxJobs, old), r.Steps})
					} else {
						realSeen = true
						var desc []string
						for _, cj := range r.Cluster {
							if busy(cj) {
								d := fmt.Sprintf("#%s by mrp#%d", cj.Id, cj.Inc)
								if cj.Rec != nil {
									d += fmt.Sprintf(" %s:%s started@%d %s", cj.Rec.Key(), cj.Rec.Phase, cj.Rec.StartSeq, cj.Rec.Outcome)
								} else {
									d += " queued"
								}
								desc = append(desc, d)
							}
						}
						viol = append(viol, Violation{"C12", "maxjobs-exceeded-in-cluster-mode", fmt.Sprintf("%d jobs are queued or running on the cluster, --maxjobs=%d (%d of them running since before the restart; this mrp attached at seq %d): %s", live, maxJobs, old, attached, strings.Join(desc, "; ")), r.Steps})
					}
				}
			}
			if vm > maxVMem {
				maxVMem = vm
			}
			if vmem > 0 && vm > float64(vmem)+1e-9 && len(viol) == 0 {
				viol = append(viol, Violation{"C12", "local-vmem-exceeded", fmt.Sprintf("%d live local jobs reserve %.2f GB of address space in total, --localvmem=%d", n, vm, vmem), r.Steps})
			}
			if mg > float64(mem)+1e-9 && len(viol) == 0 {
				viol = append(viol, Violation{"C12", "local-mem-exceeded", fmt.Sprintf("%d live local jobs reserve %.2f GB in total, --localmem=%d", n, mg, mem), r.Steps})
			}
		})
	})
	c.Res.Shape = progShape(prog)
	c.Res.Class = r.Class()
	c.Res.Violations = append(c.Res.Violations, viol...)
	c.Res.Nontrivial = len(r.Jobs) >= 3
	if maxThreads >= float64(cores)-1e-9 {
		c.Res.Probes["cores-fully-subscribed"]++
	}
	if maxMem >= float64(mem)-1e-9 {
		c.Res.Probes["mem-fully-subscribed"]++
	}
	if vmem > 0 && maxVMem >= float64(vmem)-1e-9 {
		c.Res.Probes["vmem-fully-subscribed"]++
	}
	if cluster {
		c.Res.Probes["cluster-jobs-submitted"] += len(r.Cluster)
		if maxLive >= maxJobs {
			c.Res.Probes["maxjobs-fully-used"]++
		}
	}
	if strings.Contains(r.outBuf.String(), "Waiting for jobs to complete") || weather {
		c.Res.Probes["weather-or-waiting"]++
	}
	switch r.Class() {
	case "complete", "rejected-at-start", "step-budget":
	case "failed":
		if ev, _ := Evaluate(prog, r.Jobs); ev.Rejected == "" && len(r.Panics) == 0 {
			c.Res.Notes = append(c.Res.Notes, "failed: "+lastLines(r.outBuf.String(), 3))
		}
		// a request beyond a limit is clamped, never a reason to fail
		o := r.outBuf.String()
		if strings.Contains(o, "Tried to acquire") || strings.Contains(o, "the job manager was only configured") ||
			strings.Contains(o, "when the maximum is") || strings.Contains(o, "of virtual memory, but") {
			c.Res.Violations = append(c.Res.Violations, Violation{"C12", "oversized-request-failed-instead-of-clamped",
				fmt.Sprintf("with --localcores=%d --localmem=%d a job's request was refused instead of being clamped to the limit: %s", cores, mem, lastLines(o, 6)), r.Steps})
		}
	default:
		if len(cfg.Crashes) > 0 {
			// whether a killed and restarted pipestance finishes is C05's question
			// (known finding KF-C05-2 lives in cluster mode); here only the limits
			c.Res.Notes = append(c.Res.Notes, "restarted cluster run ended as "+r.Class())
		} else if len(r.Panics) == 0 {
			c.Res.Violations = append(c.Res.Violations, Violation{"C12", "pipestance-stalled",
				fmt.Sprintf("with --localcores=%d --localmem=%d the pipestance did not finish (%s): %s", cores, mem, r.Class(), lastLines(r.outBuf.String(), 6)), r.Steps})
		}
	}
	if len(c.Res.Violations) > 0 || c.Keep || c.Res.Sample == nil {
		s := describeRun(r, true)
		s["max_threads_reserved"], s["max_mem_reserved"] = maxThreads, maxMem
		c.Res.Sample = s
	}
}

func c12Case(c *Ctx) {
	sel := c.Plan.Draw(4)
	if os.Getenv("VERIF_C12") == "system" { // experiments: system tier only
		sel = 3
	}
	switch sel {
	case 0, 1:
		c.Res.Violations = append(c.Res.Violations, semResourceCase(c)...)
		c.Res.Class = "semaphore"
		c.Res.Shape = fmt.Sprintf("sem%x", hash64(fmt.Sprint(c.Plan.Rec)))
		c.Res.Sched = fmt.Sprintf("%x", hash64(fmt.Sprint(c.Sched.Rec)))
		c.Res.Nontrivial = true
		if c.Res.Sample == nil {
			c.Res.Sample = map[string]interface{}{"kind": "ResourceSemaphore operation sequence", "plan_tape": c.Plan.Rec}
		}
	case 2:
		c.Res.Violations = append(c.Res.Violations, semMaxJobsCase(c)...)
		c.Res.Class = "maxjobs"
		c.Res.Shape = fmt.Sprintf("mj%x", hash64(fmt.Sprint(c.Plan.Rec)))
		c.Res.Sched = fmt.Sprintf("%x", hash64(fmt.Sprint(c.Sched.Rec)))
		c.Res.Nontrivial = true
	default:
		c12System(c)
	}
}

func init() {
	Profiles["C12"] = c12Case
}

// templateChunksProg: two or three splitting stages in a row (and one side by side),
// each with many chunks: what competes for job slots are the chunks of one fork.
func templateChunksProg(plan *Tape) *Prog {
	p := &Prog{}
	intT := Ty{Base: "int"}
	ref := func(call string, path ...string) *Expr { return &Expr{Kind: ERef, Call: call, Path: path} }
	self := func(path ...string) *Expr { return &Expr{Kind: ERef, Self: true, Path: path} }
	mk := func(name string) *StageDef {
		return &StageDef{Name: name, SrcKind: "comp", Ins: []Field{{"n", intT}}, Outs: []Field{{"total", intT}},
			Split: true, ChunkIns: []Field{{"c0", intT}}, ChunkOuts: []Field{{"part", intT}}}
	}
	p.Stages = []*StageDef{mk("WIDE_A"), mk("WIDE_B"), mk("WIDE_C")}
	top := &PipelineDef{Name: "TOPW", Ins: []Field{{"n", intT}}}
	top.Calls = []*CallDef{
		{Callee: "WIDE_A", Id: "WIDE_A", Binds: []Bind{{"n", self("n"), false}}},
		{Callee: "WIDE_B", Id: "WIDE_B", Binds: []Bind{{"n", ref("WIDE_A", "total"), false}}},
	}
	top.Outs = []Field{{"total", intT}}
	top.Ret = []Bind{{"total", ref("WIDE_B", "total"), false}}
	if plan.Draw(2) == 0 {
		top.Calls = append(top.Calls, &CallDef{Callee: "WIDE_C", Id: "WIDE_C", Binds: []Bind{{"n", self("n"), false}}})
		top.Outs = append(top.Outs, Field{"side", intT})
		top.Ret = append(top.Ret, Bind{"side", ref("WIDE_C", "total"), false})
	}
	if plan.Draw(2) == 0 {
		// a splitting stage that returns nothing (its chunks and its join are run for
		// their effects): nothing but the states of its jobs says when it is done
		p.Stages = append(p.Stages, &StageDef{Name: "WIDE_D", SrcKind: "comp", Ins: []Field{{"n", intT}},
			Split: true, ChunkIns: []Field{{"c0", intT}}})
		top.Calls = append(top.Calls, &CallDef{Callee: "WIDE_D", Id: "WIDE_D", Binds: []Bind{{"n", ref("WIDE_A", "total"), false}}})
	}
	p.Pipelines = []*PipelineDef{top}
	p.Top = &CallDef{Callee: "TOPW", Id: "TOPW", Binds: []Bind{{"n", &Expr{Kind: ELit, Val: int64(plan.Draw(1000)), T: intT}, false}}}
	return p
}
