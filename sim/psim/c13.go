package psim

import (
	"fmt"
	"os"
	"path"
	"sort"
	"strings"

	"github.com/martian-lang/martian/martian/verifsim/vos"
)

// ---------------------------------------------------------------------------
// C13: final outputs are materialised faithfully under outs/.
//
// Post-processing is a multi-step file-system transaction (rename into outs/,
// symlink back, rewrite of the top-level _outs) which runs while the detached
// VDR goroutines may still be cleaning, which can be interrupted at any of its
// steps and is then repeated by the next mrp on a half-moved tree.  The profile
// drives it with top-level output signatures of every container shape, with the
// unusual-but-legal things a stage may leave behind for a file output (nothing,
// a symlink, a path outside the pipestance, a directory), under all VDR modes,
// adversarial schedules, and kills / signals / power losses placed inside the
// post-processing window followed by a restart.
//
// Oracle: an independent derivation of the outs/ layout from the *program model*
// (parameter name, type, explicit output name) and the expected top-level values
// from the reference evaluator; every file is compared by the content recorded
// when stage code wrote it.
// ---------------------------------------------------------------------------

// fileKind of a type in the program model: 'f' a file, 'd' a container or struct
// holding files (a directory under outs/), 0 otherwise.
func (p *Prog) fileKind(t Ty) byte {
	base := byte(0)
	if p.IsFileType(t.Base) {
		base = 'f'
	} else if s := p.Struct(t.Base); s != nil {
		for _, f := range s.Fields {
			if p.fileKind(f.T) != 0 {
				base = 'd'
			}
		}
	}
	if base != 0 && t.Dims != "" {
		return 'd'
	}
	return base
}

// outFilename derives the name below outs/ of a parameter, struct field or
// collection element from its name, type and explicit output name.
func (p *Prog) outFilename(owner, id string, t Ty) string {
	if n, ok := p.OutNames[owner+"."+id]; ok && n != "" {
		return n
	}
	if t.Dims != "" || p.Struct(t.Base) != nil || t.Base == "file" || t.Base == "path" {
		return id
	}
	return id + "." + t.Base
}

func widthForCount(n int) int {
	w := 1
	for n >= 10 {
		n /= 10
		w++
	}
	return w
}

type outsChecker struct {
	r     *Run
	p     *Prog
	refs  map[string]int // how often each reported path is named by the top-level outputs
	add   func(oracle, msg string)
	files int
	kinds map[string]int
}

// countRefs walks an expected value by type and counts the file leaves.
func (oc *outsChecker) countRefs(t Ty, exp interface{}) {
	if exp == nil {
		return
	}
	if _, abs := exp.(absentT); abs {
		return
	}
	if t.Dims != "" {
		switch x := exp.(type) {
		case []interface{}:
			for _, e := range x {
				oc.countRefs(t.Elem(), e)
			}
		case map[string]interface{}:
			for _, e := range x {
				oc.countRefs(t.Elem(), e)
			}
		}
		return
	}
	if oc.p.IsFileType(t.Base) {
		if s, ok := exp.(string); ok {
			oc.refs[s]++
		}
		return
	}
	if s := oc.p.Struct(t.Base); s != nil {
		if m, ok := exp.(map[string]interface{}); ok {
			for _, f := range s.Fields {
				oc.countRefs(f.T, m[f.Name])
			}
		}
	}
}

func (oc *outsChecker) rel(p string) string { return strings.TrimPrefix(p, oc.r.PsDir+"/") }

// contentAt returns a token for what is found at a path (following symlinks).
func contentAt(p string) (string, bool) {
	st, err := os.Stat(p)
	if err != nil {
		return "", false
	}
	if st.IsDir() {
		return dirToken(p), true
	}
	b, err := os.ReadFile(p)
	if err != nil {
		return "", false
	}
	return "FILE:" + string(b), true
}

// check compares one value of the rewritten _outs with what the model expects.
// dir is the directory under outs/ the value's name lives in.
func (oc *outsChecker) check(dir, owner, id string, t Ty, exp, act interface{}, where string) {
	if _, abs := exp.(absentT); abs || exp == nil {
		if !nullish(act) {
			oc.add("null-output-became-value", fmt.Sprintf("%s: expected null, _outs has %s", where, Show(act)))
		}
		return
	}
	k := oc.p.fileKind(t)
	if k == 0 {
		if !MatchVal(exp, act) {
			oc.add("non-file-value-changed", fmt.Sprintf("%s (%s): expected %s, _outs has %s", where, t, Show(exp), Show(act)))
		}
		return
	}
	name := oc.p.outFilename(owner, id, t)
	outPath := path.Join(dir, name)
	if k == 'f' {
		oc.checkFile(outPath, exp, act, where)
		return
	}
	// a directory under outs/
	if t.Dims != "" {
		if t.Dims[0] == 'a' {
			ea, ok1 := exp.([]interface{})
			aa, ok2 := act.([]interface{})
			if !ok1 {
				return
			}
			if !ok2 || len(aa) != len(ea) {
				if allAbsent(ea) && nullish(act) {
					return
				}
				oc.add("shape-changed", fmt.Sprintf("%s (%s): expected an array of %d, _outs has %s", where, t, len(ea), Show(act)))
				return
			}
			w := widthForCount(len(ea))
			for i := range ea {
				oc.check(outPath, "", fmt.Sprintf("%0*d", w, i), t.Elem(), ea[i], aa[i], fmt.Sprintf("%s[%d]", where, i))
			}
			return
		}
		em, ok1 := exp.(map[string]interface{})
		am, ok2 := act.(map[string]interface{})
		if !ok1 {
			return
		}
		if !ok2 {
			if allAbsent(em) && nullish(act) {
				return
			}
			oc.add("shape-changed", fmt.Sprintf("%s (%s): expected a map with keys %v, _outs has %s", where, t, sortedKeys(em), Show(act)))
			return
		}
		for key := range am {
			if _, ok := em[key]; !ok {
				oc.add("shape-changed", fmt.Sprintf("%s (%s): _outs has a key %q the stage did not produce", where, t, key))
			}
		}
		for _, key := range sortedKeys(em) {
			av, ok := am[key]
			if key == "" || key == "." || key == ".." || strings.Contains(key, "/") || len(key) > 255 {
				// not a legal file name: martian reports that it cannot create the
				// directory entry and leaves the key out; nothing to demand for it
				oc.kinds["map-key-that-is-no-file-name"]++
				continue
			}
			if !ok {
				oc.add("shape-changed", fmt.Sprintf("%s (%s): key %q is missing from _outs", where, t, key))
				continue
			}
			oc.check(outPath, "", key, t.Elem(), em[key], av, fmt.Sprintf("%s{%s}", where, key))
		}
		return
	}
	s := oc.p.Struct(t.Base)
	em, ok1 := exp.(map[string]interface{})
	am, ok2 := act.(map[string]interface{})
	if !ok1 {
		return
	}
	if !ok2 {
		oc.add("shape-changed", fmt.Sprintf("%s (%s): expected a struct, _outs has %s", where, t, Show(act)))
		return
	}
	for key := range am {
		found := false
		for _, f := range s.Fields {
			if f.Name == key {
				found = true
			}
		}
		if !found {
			oc.add("shape-changed", fmt.Sprintf("%s (%s): _outs has an undeclared field %q", where, t, key))
		}
	}
	for _, f := range s.Fields {
		av, ok := am[f.Name]
		if !ok && em[f.Name] != nil {
			oc.add("shape-changed", fmt.Sprintf("%s (%s): field %q is missing from _outs", where, t, f.Name))
			continue
		}
		oc.check(outPath, s.Name, f.Name, f.T, em[f.Name], av, where+"."+f.Name)
	}
}

func (oc *outsChecker) checkFile(outPath string, exp, act interface{}, where string) {
	r := oc.r
	v, ok := exp.(string)
	if !ok {
		return
	}
	if v == "" {
		if act != nil {
			oc.add("null-output-became-value", fmt.Sprintf("%s: empty path, _outs has %s", where, Show(act)))
		}
		return
	}
	oc.files++
	rec := r.fileRec(v)
	kids, isDir := r.Dirs[v]
	want := ""
	kind := "regular"
	switch {
	case isDir:
		var parts []string
		for _, kp := range kids {
			parts = append(parts, path.Base(kp)+"="+r.Files[kp].Content)
		}
		sort.Strings(parts)
		want = "DIR:" + strings.Join(parts, ";")
		kind = "directory"
	case rec == nil:
		oc.kinds["unknown"]++
		return
	default:
		want = "FILE:" + rec.Content
		if rec.Kind != "" {
			kind = rec.Kind
		}
	}
	oc.kinds[kind]++
	rel := oc.rel(outPath)
	switch kind {
	case "missing":
		if act != nil {
			oc.add("missing-file-not-null", fmt.Sprintf("%s: the stage never created %s, _outs has %s", where, oc.rel(v), Show(act)))
		}
		return
	case "outside":
		if as, _ := act.(string); as != v {
			oc.add("outside-path-changed", fmt.Sprintf("%s: the value is a path outside the pipestance (%s) and must stay, _outs has %s", where, v, Show(act)))
		}
		if got, ok := contentAt(outPath); !ok {
			oc.add("output-not-under-outs", fmt.Sprintf("%s: nothing readable at %s (value outside the pipestance: %s)", where, rel, v))
		} else if got != want {
			oc.add("output-content-differs", fmt.Sprintf("%s: %s holds %q, the stage wrote %q", where, rel, got, want))
		}
		if b, err := os.ReadFile(v); err != nil || string(b) != r.ExtFiles[r.given(v)] {
			oc.add("outside-file-touched", fmt.Sprintf("%s: the file outside the pipestance %s was moved or changed", where, v))
		}
		return
	}
	// a file, symlink or directory inside the pipestance
	got, ok := contentAt(outPath)
	if !ok {
		oc.add("output-not-under-outs", fmt.Sprintf("%s: nothing readable at %s (the stage wrote %s, a %s)", where, rel, oc.rel(v), kind))
	} else if got != want {
		oc.add("output-content-differs", fmt.Sprintf("%s: %s holds %q, the stage wrote %q", where, rel, got, want))
	}
	as, isStr := act.(string)
	if !isStr {
		oc.add("file-value-lost", fmt.Sprintf("%s: the stage wrote %s (%s), _outs has %s", where, oc.rel(v), kind, Show(act)))
		return
	}
	if kind == "symlink" || oc.refs[v] > 1 {
		// the value may name the link's destination, or the outs/ location of the
		// first output naming the same file: it must read the same content
		if g2, ok := contentAt(as); !ok || g2 != want {
			oc.add("value-does-not-point-at-the-output", fmt.Sprintf("%s: _outs names %s, which does not hold what the stage wrote (%s, a %s)", where, as, oc.rel(v), kind))
		}
		if rec != nil && rec.Kind == "symlink" && r.ExtFiles[rec.Target] != "" {
			if b, err := os.ReadFile(rec.Target); err != nil || string(b) != r.ExtFiles[rec.Target] {
				oc.add("outside-file-touched", fmt.Sprintf("%s: the file outside the pipestance %s was moved or changed", where, rec.Target))
			}
		}
		return
	}
	if as != outPath {
		oc.add("value-does-not-point-at-the-output", fmt.Sprintf("%s: _outs names %s, expected %s", where, oc.rel(as), rel))
	}
}

// CheckOutsDir is the C13 oracle for a completed run.
func (r *Run) CheckOutsDir(prog *Prog, expAll interface{}, add func(oracle, msg string)) *outsChecker {
	oc := &outsChecker{r: r, p: prog, refs: map[string]int{}, add: add, kinds: map[string]int{}}
	top := prog.Pipeline(prog.Top.Callee)
	raw, err := r.readMeta(path.Join(top.Name, "fork0", "_outs"))
	if err != nil {
		add("top-outs-unreadable", err.Error())
		return oc
	}
	actV, err := ParseJSON(raw)
	if err != nil {
		add("top-outs-not-json", fmt.Sprintf("%v: %s", err, string(raw)))
		return oc
	}
	if prog.Top.Mapped {
		// a map-called top-level pipeline: _outs is a collection of the pipeline's
		// outputs, and every element has its own directory outs/<index or key>
		oc.checkMappedTop(top, expAll, actV)
		oc.checkWritesStayInside()
		return oc
	}
	expTop, _ := expAll.(map[string]interface{})
	act, ok := actV.(map[string]interface{})
	if !ok {
		add("top-outs-not-json", "not an object: "+string(raw))
		return oc
	}
	for _, f := range top.Outs {
		oc.countRefs(f.T, expTop[f.Name])
	}
	oc.checkTopStruct(top, path.Join(r.PsDir, "outs"), expTop, act, "")
	oc.checkWritesStayInside()
	return oc
}

func (oc *outsChecker) checkMappedTop(top *PipelineDef, expAll, actV interface{}) {
	add := oc.add
	outs := path.Join(oc.r.PsDir, "outs")
	switch ex := expAll.(type) {
	case []interface{}:
		aa, ok := actV.([]interface{})
		if !ok || len(aa) != len(ex) {
			if len(ex) == 0 && nullish(actV) {
				return
			}
			add("shape-changed", fmt.Sprintf("map-called top-level pipeline over %d elements, _outs has %s", len(ex), Show(actV)))
			return
		}
		for _, e := range ex {
			if m, ok := e.(map[string]interface{}); ok {
				for _, f := range top.Outs {
					oc.countRefs(f.T, m[f.Name])
				}
			}
		}
		for i, e := range ex {
			em, _ := e.(map[string]interface{})
			am, ok := aa[i].(map[string]interface{})
			if !ok {
				add("shape-changed", fmt.Sprintf("element %d of the map-called top-level pipeline's _outs is %s", i, Show(aa[i])))
				continue
			}
			oc.checkTopStruct(top, path.Join(outs, fmt.Sprint(i)), em, am, fmt.Sprintf("[%d].", i))
		}
	case map[string]interface{}:
		am, ok := actV.(map[string]interface{})
		if !ok || len(am) != len(ex) {
			if len(ex) == 0 && nullish(actV) {
				return
			}
			add("shape-changed", fmt.Sprintf("map-called top-level pipeline over keys %v, _outs has %s", sortedKeys(ex), Show(actV)))
			return
		}
		for _, e := range ex {
			if m, ok := e.(map[string]interface{}); ok {
				for _, f := range top.Outs {
					oc.countRefs(f.T, m[f.Name])
				}
			}
		}
		for _, k := range sortedKeys(ex) {
			em, _ := ex[k].(map[string]interface{})
			av, ok := am[k].(map[string]interface{})
			if !ok {
				add("shape-changed", fmt.Sprintf("element %q of the map-called top-level pipeline's _outs is %s", k, Show(am[k])))
				continue
			}
			oc.checkTopStruct(top, path.Join(outs, k), em, av, fmt.Sprintf("{%s}.", k))
		}
	default:
		if !nullish(actV) {
			add("shape-changed", fmt.Sprintf("map-called top-level pipeline over nothing, _outs has %s", Show(actV)))
		}
	}
}

func (oc *outsChecker) checkTopStruct(top *PipelineDef, dir string, expTop, act map[string]interface{}, where string) {
	add := oc.add
	declared := map[string]bool{}
	for _, f := range top.Outs {
		declared[f.Name] = true
		av, has := act[f.Name]
		if !has && !nullish(expTop[f.Name]) {
			add("shape-changed", fmt.Sprintf("output %s is missing from the rewritten _outs", f.Name))
			continue
		}
		oc.check(dir, top.Name, f.Name, f.T, expTop[f.Name], av, where+f.Name)
	}
	for k := range act {
		if !declared[k] {
			add("shape-changed", fmt.Sprintf("the rewritten _outs has an undeclared key %q", where+k))
		}
	}
}

// mrp must not have touched anything outside the pipestance directory
func (oc *outsChecker) checkWritesStayInside() {
	for _, ev := range vos.W.Events {
		if ev.PKind == "mrp" && ev.Err == "" && !strings.HasPrefix(ev.Path, "ps/") && ev.Path != "ps" && !strings.HasPrefix(ev.Path, "/dev/") {
			oc.add("mrp-wrote-outside-the-pipestance", fmt.Sprintf("%s %s (from %s)", ev.Op, ev.Path, ev.Site))
			break
		}
	}
}

func c13Case(c *Ctx) {
	var prog *Prog
	family := c.Plan.Draw(5) > 0
	if family {
		prog = templateOutsProg(c.Plan)
		c.Res.Probes["template-outs-program"]++
	} else {
		gcfg := swarmGen(c.Plan, c.thorough())
		gcfg.Files = true
		gcfg.Volatile = c.Plan.Draw(3) == 0
		prog = Generate(c.Plan, gcfg)
	}
	mode := []string{"disable", "rolling", "post", "strict"}[c.Plan.Draw(4)]
	fcfg := &FCfg{MaxLen: 1 + c.Plan.Draw(4), MaxChunks: c.Plan.Draw(3), Salt: fmt.Sprintf("c13-%d", c.Plan.Draw(100000)),
		AllowNil: c.Plan.Draw(3) == 0}
	if c.Plan.Draw(3) == 0 {
		fcfg.KeyAlphabet = outKeys
	}
	if c.Plan.Draw(8) == 0 {
		fcfg.MaxLen = 10 + c.Plan.Draw(3) // array element names cross the decimal width boundary
	}
	flags := append(baseFlags(c.Plan), "--vdrmode="+mode)
	if c.Plan.Draw(4) == 0 {
		// the metadata files are archived into _metadata.zip once everything else is
		// done; a restarted mrp unpacks them again before it repeats the post-processing
		flags = append(flags, "--zip")
		c.Res.Probes["runs-with-zip"]++
	}
	outKinds := c.Plan.Draw(3) > 0
	linkDirs := c.Plan.Draw(4) == 0
	dirOuts := c.Plan.Draw(3) == 0
	companions := c.Plan.Draw(4) == 0
	mk := func() *RunCfg {
		return &RunCfg{Prog: prog, FCfg: fcfg, MaxSteps: 80000, Flags: flags, OutKinds: outKinds, LinkDirs: linkDirs,
			DirOutputs: dirOuts, Companions: companions, ExtraFiles: true}
	}
	base := mk()
	swarmSched(c.Plan, base)
	base.WAux = []int{1, 1, 30, 100}[c.Plan.Draw(4)]
	ppGate := 0
	topDone := path.Join(prog.Top.Callee, "fork0", "_complete")
	twin := c.RunOnce(base, func(r *Run) {
		r.StepHooks = append(r.StepHooks, func() {
			if ppGate == 0 && r.Mrp != nil {
				if _, err := os.Stat(path.Join(r.PsDir, topDone)); err == nil {
					ppGate = r.Mrp.Gates
				}
			}
		})
	})
	c.Res.Shape = progShape(prog)
	c.Res.Class = twin.Class()
	c.Res.Probes["mode:"+mode]++
	if len(twin.Panics) > 0 {
		c.Res.Class = "mrp-panicked"
		c.Res.Violations = append(c.Res.Violations, Violation{"OBS", "mrp-panic", firstLines(twin.Panics[0], 14), twin.Steps})
		c.Res.Sample = describeRun(twin, true)
		return
	}
	if twin.Class() != "complete" {
		if twin.Class() == "failed" || twin.Class() == "rejected-at-start" {
			c.Res.Notes = append(c.Res.Notes, "base run "+twin.Class()+": "+lastLines(twin.outBuf.String(), 8))
		}
		return
	}
	ev, top := Evaluate(prog, twin.Jobs)
	if ev.Rejected != "" || ev.Incomplete || ev.Ambiguous > 0 {
		c.Res.Class = "model-rejected"
		return
	}
	judge := func(r *Run, what string) bool {
		n0 := len(c.Res.Violations)
		e2, t2 := ev, top
		if r != twin {
			e2, t2 = Evaluate(prog, r.Jobs)
			if e2.Rejected != "" || e2.Incomplete || e2.Ambiguous > 0 {
				c.Res.Probes["interrupted-run-not-judged"]++
				return true
			}
		}
		expTop := t2.plain()
		oc := r.CheckOutsDir(prog, expTop, func(oracle, msg string) {
			c.Res.Violations = append(c.Res.Violations, Violation{"C13", oracle, "[vdrmode=" + mode + ", " + what + "] " + msg, r.Steps})
		})
		c.Res.Probes["top-level-file-outputs"] += oc.files
		for k, n := range oc.kinds {
			c.Res.Probes["output-kind:"+k] += n
		}
		if len(c.Res.Violations) > n0 {
			s := describeRun(r, true)
			s["vdrmode"] = mode
			if b, err := os.ReadFile(path.Join(r.PsDir, prog.Top.Callee, "fork0", "_outs")); err == nil {
				s["rewritten_outs"] = string(b)
			} else {
				s["rewritten_outs"] = "(not on disk: " + err.Error() + ")"
			}
			s["expected_top_values"] = Show(expTop)
			var tree []string
			walkNames(path.Join(r.PsDir, "outs"), "outs", &tree)
			s["outs_tree"] = tree
			c.Res.Sample = s
			return false
		}
		return true
	}
	c.Res.Nontrivial = len(twin.Files) >= 1
	if !judge(twin, "uninterrupted") {
		return
	}
	c.Res.Class = "checked"
	if c.Plan.Draw(2) == 0 || ppGate == 0 {
		if c.Res.Sample == nil || c.Keep {
			c.Res.Sample = describeRun(twin, true)
		}
		return
	}
	// interruptions inside (and just before) the post-processing window
	gates := twin.Mrp.Gates
	npoints := 3
	if c.thorough() {
		npoints = 12
	}
	kinds := []string{"kill", "kill", "sigterm", "sigint", "powerloss", "kill"}
	for i := 0; i < npoints; i++ {
		cfg := mk()
		cfg.WMrp, cfg.WJob, cfg.WAux, cfg.WTime = base.WMrp, base.WJob, base.WAux, base.WTime
		cfg.MapMode, cfg.MapSalt = base.MapMode, base.MapSalt
		lo := ppGate - 4
		if lo < 1 {
			lo = 1
		}
		at := lo + c.Plan.Draw(gates-lo+1)
		spec := []CrashSpec{{Inc: 1, AtGate: at, Kind: kinds[c.Plan.Draw(len(kinds))]}}
		cfg.Restarts = 1
		if c.Plan.Draw(4) == 0 {
			// a second interruption while the restarted mrp repeats the post-processing
			spec = append(spec, CrashSpec{Inc: 2, AtGate: 1 + c.Plan.Draw(gates/2+1), Kind: kinds[c.Plan.Draw(len(kinds))]})
			cfg.Restarts = 2
		}
		cfg.Crashes = spec
		r := c.RunOnce(cfg, nil)
		if r.Inc == 1 {
			c.Res.Probes["crash-point-not-reached"]++
			continue
		}
		c.Res.Probes["interrupted-in-post-processing"]++
		if len(r.Panics) > 0 {
			c.Res.Violations = append(c.Res.Violations, Violation{"OBS", "mrp-panic", firstLines(r.Panics[0], 14), r.Steps})
			continue
		}
		if r.Class() != "complete" {
			if r.Class() == "step-budget" {
				continue
			}
			c.Res.Violations = append(c.Res.Violations, Violation{"C13", "interrupted-post-processing-does-not-complete",
				fmt.Sprintf("[vdrmode=%s] interrupted by %v after the pipestance's stages were done; the restarted mrp ended as %s: %s", mode, spec, r.Class(), lastLines(r.outBuf.String(), 8)), r.Steps})
			s := describeRun(r, true)
			s["crash_plan"] = spec
			c.Res.Sample = s
			return
		}
		if !judge(r, fmt.Sprintf("interrupted %v", spec)) {
			if s, ok := c.Res.Sample.(map[string]interface{}); ok {
				s["crash_plan"] = spec
			}
			return
		}
	}
	if c.Res.Sample == nil || c.Keep {
		c.Res.Sample = describeRun(twin, true)
	}
}

func walkNames(dir, rel string, out *[]string) {
	ents, err := os.ReadDir(dir)
	if err != nil {
		return
	}
	for _, e := range ents {
		p := path.Join(dir, e.Name())
		line := rel + "/" + e.Name()
		if e.Type()&os.ModeSymlink != 0 {
			t, _ := os.Readlink(p)
			line += " -> " + t
		}
		*out = append(*out, line)
		if e.IsDir() {
			walkNames(p, rel+"/"+e.Name(), out)
		}
	}
}

// outKeys: typed-map keys of file-holding outputs; each is a legal file name, and
// together they exercise the hand-written JSON writers of post-processing.
var outKeys = []string{"k", "a.b", "x y", "ünï", "日本", "q\"uote", "back\\slash", "%2F", "tab\there", "0", "00", "-", "_", "a=b&c", "{brace}", "[0]", "nul\u0001ctl"}

func init() {
	Profiles["C13"] = c13Case
}

// templateOutsProg: the family "top-level output signatures".  One producer with
// outputs of many file-holding shapes, an optional mapped producer (arrays / maps of
// files made of one file per fork), optional pass-through sub-pipeline, projections
// out of structs and collections of structs, explicit output names and help texts on
// pipeline outputs, stage outputs and struct fields, the same file returned twice.
func templateOutsProg(plan *Tape) *Prog {
	p := &Prog{FileTypes: []string{"txt", "json", "bam"}, OutNames: map[string]string{}, Helps: map[string]string{}}
	intT, strT := Ty{Base: "int"}, Ty{Base: "string"}
	txt, jsn, bam, fileT, pathT := Ty{Base: "txt"}, Ty{Base: "json"}, Ty{Base: "bam"}, Ty{Base: "file"}, Ty{Base: "path"}
	fs := &StructDef{Name: "FS", Fields: []Field{{"a", txt}, {"b", jsn}, {"n", intT}, {"raw", fileT}}}
	outer := &StructDef{Name: "OUTER", Fields: []Field{{"inner", Ty{Base: "FS"}}, {"list", txt.ArrayOf()}, {"bykey", jsn.MapOf()}, {"note", strT}, {"many", Ty{Base: "FS", Dims: "a"}}}}
	plainS := &StructDef{Name: "PLAIN", Fields: []Field{{"x", intT}, {"s", strT}}}
	// the order of the members varies: a struct is a directory under outs/ whatever
	// comes first in it (a string or an int before the first file, a file first)
	fs.Fields = append(fs.Fields, Field{"label", strT})
	rot := func(f []Field, k int) []Field { return append(append([]Field{}, f[k:]...), f[:k]...) }
	fs.Fields = rot(fs.Fields, plan.Draw(len(fs.Fields)))
	outer.Fields = rot(outer.Fields, plan.Draw(len(outer.Fields)))
	p.Structs = []*StructDef{fs, outer, plainS}
	if plan.Draw(2) == 0 {
		p.OutNames["FS.a"] = "alpha.txt"
		p.Helps["FS.a"] = "the alpha file"
	}
	if plan.Draw(3) == 0 {
		p.OutNames["FS.raw"] = "raw data.bin"
		p.Helps["FS.raw"] = ""
	}
	if plan.Draw(3) == 0 {
		p.Helps["OUTER.list"] = "a list"
	}
	if plan.Draw(4) == 0 {
		p.OutNames["OUTER.inner"] = "inner_dir"
		p.Helps["OUTER.inner"] = "inner"
	}
	pool := []Field{
		{"f", txt}, {"g", fileT}, {"d", pathT}, {"fa", jsn.ArrayOf()}, {"faa", Ty{Base: "txt", Dims: "aa"}},
		{"fm", bam.MapOf()}, {"fma", Ty{Base: "txt", Dims: "ma"}}, {"fam", Ty{Base: "json", Dims: "am"}},
		{"s", Ty{Base: "FS"}}, {"sa", Ty{Base: "FS", Dims: "a"}}, {"sm", Ty{Base: "FS", Dims: "m"}},
		{"o", Ty{Base: "OUTER"}}, {"oa", Ty{Base: "OUTER", Dims: "a"}},
		{"n", intT}, {"note", strT}, {"pl", Ty{Base: "PLAIN"}}, {"pla", Ty{Base: "PLAIN", Dims: "a"}},
		{"x", Ty{Base: "float"}}, {"mi", intT.MapOf()}, {"sarr", strT.ArrayOf()}, {"ga", fileT.ArrayOf()}, {"da", pathT.MapOf()},
	}
	nouts := 2 + plan.Draw(6)
	var outs []Field
	used := map[string]bool{}
	for len(outs) < nouts {
		i := plan.Draw(len(pool))
		for used[pool[i].Name] {
			i = (i + 1) % len(pool) // (an exhausted tape draws zeros: no rejection loop)
		}
		f := pool[i]
		used[f.Name] = true
		outs = append(outs, f)
	}
	mk := &StageDef{Name: "MAKE", SrcKind: "comp", Ins: []Field{{"seed", intT}}, Outs: outs}
	if plan.Draw(3) == 0 {
		mk.SrcKind = "exec"
	}
	if plan.Draw(4) == 0 {
		mk.Split = true
		mk.ChunkIns = []Field{{"c0", intT}}
		mk.ChunkOuts = []Field{{"part", txt}}
	}
	switch plan.Draw(4) {
	case 0:
		mk.Volatile = "strict"
	case 1:
		mk.Volatile = "false"
	}
	for _, f := range outs {
		if p.fileKind(f.T) != 0 && plan.Draw(4) == 0 {
			// an explicit name on the stage's own output (names the pre-populated path)
			p.OutNames["MAKE."+f.Name] = "stage_" + f.Name + ".out"
			p.Helps["MAKE."+f.Name] = "made " + f.Name
		}
	}
	p.Stages = []*StageDef{mk}
	ref := func(call string, pth ...string) *Expr { return &Expr{Kind: ERef, Call: call, Path: pth} }
	self := func(pth ...string) *Expr { return &Expr{Kind: ERef, Self: true, Path: pth} }
	lit := func(v int) *Expr { return &Expr{Kind: ELit, Val: int64(v), T: intT} }
	top := &PipelineDef{Name: "TOPO", Ins: []Field{{"seed", intT}}}
	top.Calls = []*CallDef{{Callee: "MAKE", Id: "MAKE", Binds: []Bind{{"seed", self("seed"), false}}, Volatile: plan.Draw(3) == 0}}
	type cand struct {
		name string
		t    Ty
		e    *Expr
	}
	var cands []cand
	for _, f := range outs {
		cands = append(cands, cand{f.Name, f.T, ref("MAKE", f.Name)})
		switch f.Name {
		case "s":
			cands = append(cands, cand{"s_a", txt, ref("MAKE", "s", "a")}, cand{"s_raw", fileT, ref("MAKE", "s", "raw")})
		case "sa":
			cands = append(cands, cand{"sa_b", jsn.ArrayOf(), ref("MAKE", "sa", "b")})
		case "sm":
			cands = append(cands, cand{"sm_a", txt.MapOf(), ref("MAKE", "sm", "a")})
		case "o":
			cands = append(cands, cand{"o_inner", Ty{Base: "FS"}, ref("MAKE", "o", "inner")}, cand{"o_list", txt.ArrayOf(), ref("MAKE", "o", "list")},
				cand{"o_inner_b", jsn, ref("MAKE", "o", "inner", "b")})
		case "oa":
			cands = append(cands, cand{"oa_bykey", Ty{Base: "json", Dims: "am"}, ref("MAKE", "oa", "bykey")})
		}
	}
	// (a map-called top-level pipeline must not contain map calls: nested map calls are
	// excluded everywhere, DESIGN.md section 14 D1/D6)
	mappedTop := plan.Draw(5) == 0
	// a producer map-called over a literal or run-time collection: one file per fork
	if plan.Draw(2) == 0 && !mappedTop {
		each := &StageDef{Name: "EACH", SrcKind: "comp", Ins: []Field{{"x", intT}}, Outs: []Field{{"part", bam}, {"rec", Ty{Base: "FS"}}, {"k", intT}}}
		p.Stages = append(p.Stages, each)
		c := &CallDef{Callee: "EACH", Id: "EACH", Mapped: true}
		switch plan.Draw(3) {
		case 0:
			n := 1 + plan.Draw(12)
			var arr []interface{}
			for i := 0; i < n; i++ {
				arr = append(arr, int64(i+1))
			}
			c.Binds = []Bind{{"x", &Expr{Kind: ELit, Val: arr, T: intT.ArrayOf()}, true}}
			cands = append(cands, cand{"parts", bam.ArrayOf(), ref("EACH", "part")}, cand{"recs", Ty{Base: "FS", Dims: "a"}, ref("EACH", "rec")})
		case 1:
			m := NewOMap()
			for i, k := range []string{"left", "right hand", "mid.dle"}[:1+plan.Draw(3)] {
				m.Set(k, int64(i))
			}
			c.Binds = []Bind{{"x", &Expr{Kind: ELit, Val: m, T: intT.MapOf()}, true}}
			cands = append(cands, cand{"parts", bam.MapOf(), ref("EACH", "part")}, cand{"recs", Ty{Base: "FS", Dims: "m"}, ref("EACH", "rec")})
		default:
			if used["mi"] {
				c.Binds = []Bind{{"x", ref("MAKE", "mi"), true}}
				cands = append(cands, cand{"parts", bam.MapOf(), ref("EACH", "part")}, cand{"recs", Ty{Base: "FS", Dims: "m"}, ref("EACH", "rec")})
			} else {
				c.Binds = []Bind{{"x", &Expr{Kind: ELit, Val: []interface{}{int64(7)}, T: intT.ArrayOf()}, true}}
				cands = append(cands, cand{"parts", bam.ArrayOf(), ref("EACH", "part")})
			}
		}
		top.Calls = append(top.Calls, c)
	}
	// a consumer, so that the files are arguments as well (VDR has both reasons to keep them)
	if plan.Draw(3) == 0 {
		cs := &StageDef{Name: "READ", SrcKind: "comp", Ins: []Field{{"in0", outs[0].T}}, Outs: []Field{{"done", intT}}}
		p.Stages = append(p.Stages, cs)
		top.Calls = append(top.Calls, &CallDef{Callee: "READ", Id: "READ", Binds: []Bind{{"in0", ref("MAKE", outs[0].Name), false}}})
		cands = append(cands, cand{"done", intT, ref("READ", "done")})
	}
	// optional pass-through sub-pipeline for some of the candidates
	var pass *PipelineDef
	if plan.Draw(3) == 0 {
		pass = &PipelineDef{Name: "PASSO"}
		pc := &CallDef{Callee: "PASSO", Id: "PASSO"}
		for i := range cands {
			if plan.Draw(2) == 0 {
				cd := &cands[i]
				in := "i_" + cd.name
				pass.Ins = append(pass.Ins, Field{in, cd.t})
				pass.Outs = append(pass.Outs, Field{"o_" + cd.name, cd.t})
				pass.Ret = append(pass.Ret, Bind{"o_" + cd.name, self(in), false})
				pc.Binds = append(pc.Binds, Bind{in, cd.e, false})
				if p.fileKind(cd.t) != 0 && plan.Draw(3) == 0 {
					p.OutNames["PASSO.o_"+cd.name] = "inner name " + cd.name
					p.Helps["PASSO.o_"+cd.name] = "ignored at the top"
				}
				cd.e = ref("PASSO", "o_"+cd.name)
			}
		}
		if len(pass.Ins) == 0 {
			pass = nil
		} else {
			// MRO wants at least one call in a pipeline
			noop := &StageDef{Name: "NOOP", SrcKind: "comp", Ins: []Field{{"k", intT}}, Outs: []Field{{"z", intT}}}
			p.Stages = append(p.Stages, noop)
			pass.Ins = append(pass.Ins, Field{"k", intT})
			pc.Binds = append(pc.Binds, Bind{"k", lit(1), false})
			pass.Calls = []*CallDef{{Callee: "NOOP", Id: "NOOP", Binds: []Bind{{"k", self("k"), false}}}}
			pass.Outs = append(pass.Outs, Field{"z", intT})
			pass.Ret = append(pass.Ret, Bind{"z", ref("NOOP", "z"), false})
			p.Pipelines = append(p.Pipelines, pass)
			top.Calls = append(top.Calls, pc)
		}
	}
	usedOut := map[string]bool{}
	for _, cd := range cands {
		if plan.Draw(4) == 0 && len(top.Outs) > 0 {
			continue
		}
		name := "r_" + cd.name
		top.Outs = append(top.Outs, Field{name, cd.t})
		top.Ret = append(top.Ret, Bind{name, cd.e, false})
		if p.fileKind(cd.t) != 0 {
			switch plan.Draw(4) {
			case 0:
				on := []string{"final_" + cd.name + ".dat", "Final Report " + cd.name, cd.name + ".v2.tar.gz", "ünï_" + cd.name}[plan.Draw(4)]
				if !usedOut[on] {
					usedOut[on] = true
					p.OutNames["TOPO."+name] = on
					p.Helps["TOPO."+name] = "The " + cd.name
				}
			case 1:
				p.Helps["TOPO."+name] = "Help for " + cd.name
			}
		}
	}
	if plan.Draw(12) == 0 {
		// an explicit output name equal to the name a LATER output gets by default:
		// two outputs cannot share a place under outs/ - the compiler has to refuse
		// the program (the case is void then), or both must be delivered
		var fk []int
		for i, f := range top.Outs {
			if p.fileKind(f.T) != 0 {
				fk = append(fk, i)
			}
		}
		if len(fk) >= 2 {
			a := plan.Draw(len(fk) - 1)
			b := a + 1 + plan.Draw(len(fk)-1-a)
			fa, fb := top.Outs[fk[a]], top.Outs[fk[b]]
			if _, explicit := p.OutNames["TOPO."+fb.Name]; !explicit {
				p.OutNames["TOPO."+fa.Name] = p.outFilename("TOPO", fb.Name, fb.T)
				p.Helps["TOPO."+fa.Name] = "takes the later one's place"
				p.NameClash = true
			}
		}
	}
	// the same value returned under a second name
	if plan.Draw(5) == 0 {
		cd := cands[plan.Draw(len(cands))]
		top.Outs = append(top.Outs, Field{"again", cd.t})
		top.Ret = append(top.Ret, Bind{"again", cd.e, false})
	}
	if plan.Draw(3) == 0 {
		for _, f := range outs {
			if p.fileKind(f.T) != 0 {
				top.Retain = append(top.Retain, ref("MAKE", f.Name))
				break
			}
		}
	}
	p.Pipelines = append(p.Pipelines, top)
	p.Top = &CallDef{Callee: "TOPO", Id: "TOPO", Binds: []Bind{{"seed", lit(plan.Draw(100000)), false}}}
	if mappedTop {
		// the top-level pipeline itself is map-called: every element gets its own
		// directory outs/<index or key> and _outs is a collection
		p.Top.Mapped = true
		hasMap := false
		for _, f := range append(append([]Field{}, top.Outs...), outs...) {
			if strings.Contains(f.T.Dims, "m") {
				// map<map<..>> is not a type (and a typed map anywhere inside a
				// pipeline that is map-called over a typed map makes mrp panic at
				// start-up: DESIGN.md section 14, D4)
				hasMap = true
			}
		}
		if plan.Draw(2) == 0 || hasMap {
			n := 1 + plan.Draw(3) // ("split []" is a parse error)
			arr := []interface{}{}
			for i := 0; i < n; i++ {
				arr = append(arr, int64(plan.Draw(1000)))
			}
			p.Top.Binds = []Bind{{"seed", &Expr{Kind: ELit, Val: arr, T: intT.ArrayOf()}, true}}
		} else {
			m := NewOMap()
			for _, k := range []string{"first", "second one", "thi.rd"}[:1+plan.Draw(3)] {
				m.Set(k, int64(plan.Draw(1000)))
			}
			p.Top.Binds = []Bind{{"seed", &Expr{Kind: ELit, Val: m, T: intT.MapOf()}, true}}
		}
	}
	return p
}
