package psim

import (
	"context"
	"fmt"
	"os"
	"path"
	"strings"

	"github.com/martian-lang/martian/martian/core"
	"github.com/martian-lang/martian/martian/verifsim/vos"
	"github.com/martian-lang/martian/martian/verifsim/vproc"
)

// ---------------------------------------------------------------------------
// C15: re-attach is refused iff the invocation's meaning changed; a second mrp
// can never attach for writing to a pipestance a live mrp holds locked.
//
// The program is split over a call file (@include + call) and a declarations
// file, so that edits of the declarations are judged by martian's semantic
// comparison, not by the byte comparison of the call file.  History: mrp is
// started, killed at a sampled point, and restarted with an edited program.
// ---------------------------------------------------------------------------

type progEdit struct {
	name     string
	semantic bool
	apply    func(p *Prog, plan *Tape) (*Prog, string, bool) // returns edited program, extra text transform name, ok
}

func cloneProg(p *Prog) *Prog {
	q := *p
	q.FileTypes = append([]string(nil), p.FileTypes...)
	q.Structs = append([]*StructDef(nil), p.Structs...)
	q.Stages = make([]*StageDef, len(p.Stages))
	for i, s := range p.Stages {
		c := *s
		c.Ins = append([]Field(nil), s.Ins...)
		c.Outs = append([]Field(nil), s.Outs...)
		c.ChunkIns = append([]Field(nil), s.ChunkIns...)
		c.ChunkOuts = append([]Field(nil), s.ChunkOuts...)
		q.Stages[i] = &c
	}
	q.Pipelines = make([]*PipelineDef, len(p.Pipelines))
	for i, pl := range p.Pipelines {
		c := *pl
		c.Ins = append([]Field(nil), pl.Ins...)
		c.Outs = append([]Field(nil), pl.Outs...)
		c.Ret = append([]Bind(nil), pl.Ret...)
		c.Calls = make([]*CallDef, len(pl.Calls))
		for j, cd := range pl.Calls {
			cc := *cd
			cc.Binds = append([]Bind(nil), cd.Binds...)
			c.Calls[j] = &cc
		}
		q.Pipelines[i] = &c
	}
	tc := *p.Top
	tc.Binds = append([]Bind(nil), p.Top.Binds...)
	q.Top = &tc
	return &q
}

func cloneExpr(e *Expr) *Expr {
	if e == nil {
		return nil
	}
	c := *e
	c.Path = append([]string(nil), e.Path...)
	c.Keys = append([]string(nil), e.Keys...)
	c.Elems = make([]*Expr, len(e.Elems))
	for i, x := range e.Elems {
		c.Elems[i] = cloneExpr(x)
	}
	if len(e.Elems) == 0 {
		c.Elems = nil
	}
	return &c
}

// reachable returns the names of callables in the transitive closure of the top call.
func reachable(p *Prog) map[string]bool {
	out := map[string]bool{}
	var visit func(name string)
	visit = func(name string) {
		if out[name] {
			return
		}
		out[name] = true
		if pl := p.Pipeline(name); pl != nil {
			for _, c := range pl.Calls {
				visit(c.Callee)
			}
		}
	}
	visit(p.Top.Callee)
	return out
}

// mutSel selects which part of a collection literal an edit touches and how: it is
// set from the plan tape by the edits that use mutScalar (0 = first element, value
// changed: the historical behaviour).
var mutSel int

func mutScalar(v interface{}) (interface{}, bool) {
	switch x := v.(type) {
	case []interface{}:
		if len(x) > 0 {
			switch mutSel % 6 {
			case 1: // the last element's value
				if nv, ok := mutScalar(x[len(x)-1]); ok {
					c := append([]interface{}(nil), x...)
					c[len(x)-1] = nv
					return c, true
				}
			case 2: // one element fewer
				return append([]interface{}(nil), x[:len(x)-1]...), true
			case 3: // two different elements swapped
				for i := 1; i < len(x); i++ {
					if Canon(Plain(x[i])) != Canon(Plain(x[0])) {
						c := append([]interface{}(nil), x...)
						c[0], c[i] = c[i], c[0]
						return c, true
					}
				}
			case 4: // an element becomes null
				for i := len(x) - 1; i >= 0; i-- {
					if x[i] != nil {
						c := append([]interface{}(nil), x...)
						c[i] = nil
						return c, true
					}
				}
			case 5: // a middle element's value
				if nv, ok := mutScalar(x[len(x)/2]); ok {
					c := append([]interface{}(nil), x...)
					c[len(x)/2] = nv
					return c, true
				}
			}
		}
	case *OMap:
		if len(x.Keys) > 0 {
			cp := func() *OMap {
				c := NewOMap()
				for _, kk := range x.Keys {
					c.Set(kk, x.Vals[kk])
				}
				return c
			}
			last := x.Keys[len(x.Keys)-1]
			switch mutSel % 6 {
			case 1, 5: // the last entry's value
				if nv, ok := mutScalar(x.Vals[last]); ok {
					c := cp()
					c.Set(last, nv)
					return c, true
				}
			case 4: // an entry becomes null
				if x.Vals[last] != nil {
					c := cp()
					c.Set(last, nil)
					return c, true
				}
			}
		}
	}
	switch x := v.(type) {
	case int64:
		return x + 1, true
	case float64:
		return x + 1, true
	case string:
		return x + "_x", true
	case bool:
		return !x, true
	case []interface{}:
		for i := range x {
			if nv, ok := mutScalar(x[i]); ok {
				c := append([]interface{}(nil), x...)
				c[i] = nv
				return c, true
			}
		}
	case *OMap:
		for _, k := range x.Keys {
			if nv, ok := mutScalar(x.Vals[k]); ok {
				c := NewOMap()
				for _, kk := range x.Keys {
					c.Set(kk, x.Vals[kk])
				}
				c.Set(k, nv)
				return c, true
			}
		}
	}
	return nil, false
}

// mutExprLit changes one literal inside an expression tree.
func mutExprLit(e *Expr) (*Expr, bool) {
	if e == nil {
		return nil, false
	}
	switch e.Kind {
	case ELit:
		if nv, ok := mutScalar(e.Val); ok {
			c := *e
			c.Val = nv
			return &c, true
		}
	case EArr, EMap, EStruct:
		for i, x := range e.Elems {
			if nx, ok := mutExprLit(x); ok {
				c := *e
				c.Elems = append([]*Expr(nil), e.Elems...)
				c.Elems[i] = nx
				return &c, true
			}
		}
	}
	return nil, false
}

func renameRefs(e *Expr, from, to string) *Expr {
	if e == nil {
		return nil
	}
	c := *e
	if e.Kind == ERef && !e.Self && e.Call == from {
		c.Call = to
	}
	if len(e.Elems) > 0 {
		c.Elems = make([]*Expr, len(e.Elems))
		for i, x := range e.Elems {
			c.Elems[i] = renameRefs(x, from, to)
		}
	}
	return &c
}

var edits = []progEdit{
	{"semantic:change-literal-in-binding", true, func(p *Prog, plan *Tape) (*Prog, string, bool) {
		q := cloneProg(p)
		r := reachable(q)
		mutSel = plan.Draw(6)
		defer func() { mutSel = 0 }()
		for _, pl := range q.Pipelines {
			if !r[pl.Name] {
				continue
			}
			for _, c := range pl.Calls {
				for bi, b := range c.Binds {
					if ne, ok := mutExprLit(b.E); ok && plan.Draw(2) == 0 {
						c.Binds[bi].E = ne
						return q, "", true
					}
				}
			}
		}
		return nil, "", false
	}},
	{"semantic:rename-call", true, func(p *Prog, plan *Tape) (*Prog, string, bool) {
		q := cloneProg(p)
		r := reachable(q)
		for _, pl := range q.Pipelines {
			if !r[pl.Name] || len(pl.Calls) == 0 {
				continue
			}
			c := pl.Calls[plan.Draw(len(pl.Calls))]
			from, to := c.Id, c.Id+"_REN"
			c.Id = to
			for _, cc := range pl.Calls {
				for bi := range cc.Binds {
					cc.Binds[bi].E = renameRefs(cc.Binds[bi].E, from, to)
				}
				cc.Disabled = renameRefs(cc.Disabled, from, to)
			}
			for ri := range pl.Ret {
				pl.Ret[ri].E = renameRefs(pl.Ret[ri].E, from, to)
			}
			return q, "", true
		}
		return nil, "", false
	}},
	{"semantic:add-stage-output", true, func(p *Prog, plan *Tape) (*Prog, string, bool) {
		q := cloneProg(p)
		r := reachable(q)
		for _, s := range q.Stages {
			if r[s.Name] && !strings.HasPrefix(s.Name, "PFST") {
				s.Outs = append(s.Outs, Field{"oz_added", Ty{Base: "int"}})
				return q, "", true
			}
		}
		return nil, "", false
	}},
	{"semantic:retype-stage-input", true, func(p *Prog, plan *Tape) (*Prog, string, bool) {
		q := cloneProg(p)
		r := reachable(q)
		for _, s := range q.Stages {
			if !r[s.Name] {
				continue
			}
			for i, f := range s.Ins {
				if f.T.Base == "int" {
					s.Ins[i].T.Base = "float" // every int binding is also a valid float binding
					return q, "", true
				}
			}
		}
		return nil, "", false
	}},
	{"semantic:change-map-dimension-of-parameter", true, func(p *Prog, plan *Tape) (*Prog, string, bool) {
		// T <-> map<T> (or T[] <-> map<T[]>) on a stage output nothing refers to, or on
		// a stage input bound to null everywhere: the program still compiles, the base
		// type name and the array dimension stay the same
		q := cloneProg(p)
		r := reachable(q)
		referenced := map[string]bool{} // "STAGE.out"
		nonNull := map[string]bool{}    // "STAGE.in" bound to something other than null
		var walk func(pl *PipelineDef, e *Expr)
		walk = func(pl *PipelineDef, e *Expr) {
			if e == nil {
				return
			}
			if e.Kind == ERef && !e.Self {
				for _, c := range pl.Calls {
					if c.Id == e.Call {
						if len(e.Path) == 0 {
							referenced[c.Callee+".*"] = true
						} else {
							referenced[c.Callee+"."+e.Path[0]] = true
						}
					}
				}
			}
			for _, x := range e.Elems {
				walk(pl, x)
			}
		}
		for _, pl := range q.Pipelines {
			for _, c := range pl.Calls {
				for _, b := range c.Binds {
					walk(pl, b.E)
					if !(b.E != nil && b.E.Kind == ELit && b.E.Val == nil) || b.Split {
						nonNull[c.Callee+"."+b.Param] = true
					}
				}
				walk(pl, c.Disabled)
			}
			for _, b := range pl.Ret {
				walk(pl, b.E)
			}
			for _, e := range pl.Retain {
				walk(pl, e)
			}
		}
		flip := func(t Ty) (Ty, bool) {
			if strings.HasPrefix(t.Dims, "m") {
				return Ty{t.Base, t.Dims[1:]}, true
			}
			if !strings.Contains(t.Dims, "m") && !q.IsFileType(t.Base) {
				return Ty{t.Base, "m" + t.Dims}, true
			}
			return t, false
		}
		for _, st := range q.Stages {
			for i, f := range st.Outs {
				if f.Name == "zz_unused" && r[st.Name] {
					if nt, ok := flip(f.T); ok {
						st.Outs[i].T = nt
						return q, "", true
					}
				}
			}
		}
		for _, st := range q.Stages {
			if !r[st.Name] || strings.HasPrefix(st.Name, "PFST") || referenced[st.Name+".*"] {
				continue
			}
			for i, f := range st.Outs {
				if referenced[st.Name+"."+f.Name] || q.IsFileType(f.T.Base) {
					continue
				}
				retained := false
				for _, rn := range st.Retain {
					if rn == f.Name {
						retained = true
					}
				}
				if nt, ok := flip(f.T); ok && !retained {
					st.Outs[i].T = nt
					return q, "", true
				}
			}
			for i, f := range st.Ins {
				if nonNull[st.Name+"."+f.Name] || q.IsFileType(f.T.Base) {
					continue
				}
				if nt, ok := flip(f.T); ok {
					st.Ins[i].T = nt
					return q, "", true
				}
			}
		}
		return nil, "", false
	}},
	{"semantic:change-array-depth-of-parameter", true, func(p *Prog, plan *Tape) (*Prog, string, bool) {
		// T[] <-> T[][], map<T> <-> map<T[]>, T <-> T[] (file types included) on a stage
		// output nothing refers to, or on a stage input bound to null everywhere: the
		// program still compiles, the base type name and the map dimension stay the same
		q := cloneProg(p)
		r := reachable(q)
		referenced := map[string]bool{} // "STAGE.out"
		nonNull := map[string]bool{}    // "STAGE.in" bound to something other than null
		var walk func(pl *PipelineDef, e *Expr)
		walk = func(pl *PipelineDef, e *Expr) {
			if e == nil {
				return
			}
			if e.Kind == ERef && !e.Self {
				for _, c := range pl.Calls {
					if c.Id == e.Call {
						if len(e.Path) == 0 {
							referenced[c.Callee+".*"] = true
						} else {
							referenced[c.Callee+"."+e.Path[0]] = true
						}
					}
				}
			}
			for _, x := range e.Elems {
				walk(pl, x)
			}
		}
		for _, pl := range q.Pipelines {
			for _, c := range pl.Calls {
				for _, b := range c.Binds {
					walk(pl, b.E)
					if !(b.E != nil && b.E.Kind == ELit && b.E.Val == nil) || b.Split {
						nonNull[c.Callee+"."+b.Param] = true
					}
				}
				walk(pl, c.Disabled)
			}
			for _, b := range pl.Ret {
				walk(pl, b.E)
			}
			for _, e := range pl.Retain {
				walk(pl, e)
			}
		}
		sel := plan.Draw(2)
		flip := func(t Ty) (Ty, bool) {
			// the innermost arrays (inside the map, if there is one) gain or lose a level
			i := strings.IndexByte(t.Dims, 'm')
			outer, inner := "", t.Dims
			if i >= 0 {
				outer, inner = t.Dims[:i+1], t.Dims[i+1:]
			}
			if len(inner) > 0 && (sel == 0 || len(inner) >= 2) {
				return Ty{t.Base, outer + inner[1:]}, true
			}
			return Ty{t.Base, outer + inner + "a"}, true
		}
		for _, st := range q.Stages {
			for i, f := range st.Outs {
				if f.Name == "zz_unused" && r[st.Name] {
					if nt, ok := flip(f.T); ok {
						st.Outs[i].T = nt
						return q, "", true
					}
				}
			}
		}
		for _, st := range q.Stages {
			if !r[st.Name] || strings.HasPrefix(st.Name, "PFST") || referenced[st.Name+".*"] {
				continue
			}
			for i, f := range st.Outs {
				if referenced[st.Name+"."+f.Name] {
					continue
				}
				retained := false
				for _, rn := range st.Retain {
					if rn == f.Name {
						retained = true
					}
				}
				if nt, ok := flip(f.T); ok && !retained {
					st.Outs[i].T = nt
					return q, "", true
				}
			}
			for i, f := range st.Ins {
				if nonNull[st.Name+"."+f.Name] {
					continue
				}
				if nt, ok := flip(f.T); ok {
					st.Ins[i].T = nt
					return q, "", true
				}
			}
		}
		return nil, "", false
	}},
	{"semantic:toggle-split", true, func(p *Prog, plan *Tape) (*Prog, string, bool) {
		q := cloneProg(p)
		r := reachable(q)
		for _, s := range q.Stages {
			if !r[s.Name] || strings.HasPrefix(s.Name, "PFST") {
				continue
			}
			if s.Split {
				s.Split, s.ChunkIns, s.ChunkOuts = false, nil, nil
			} else {
				s.Split = true
				s.ChunkIns = []Field{{"c0", Ty{Base: "int"}}}
				s.ChunkOuts = []Field{{"p0", Ty{Base: "int"}}}
			}
			return q, "", true
		}
		return nil, "", false
	}},
	{"semantic:change-return-binding", true, func(p *Prog, plan *Tape) (*Prog, string, bool) {
		q := cloneProg(p)
		r := reachable(q)
		for _, pl := range q.Pipelines {
			if !r[pl.Name] {
				continue
			}
			for ri, rb := range pl.Ret {
				t := pl.Outs[ri].T
				if t.Dims == "" && (t.Base == "int" || t.Base == "string" || t.Base == "bool" || t.Base == "float") {
					var v interface{}
					switch t.Base {
					case "int":
						v = int64(424242)
					case "float":
						v = 4242.5
					case "string":
						v = "changed_return"
					case "bool":
						v = true
					}
					if rb.E.Kind == ELit && Canon(Plain(rb.E.Val)) == Canon(v) {
						continue
					}
					// keep pipeline inputs used: only replace if the old expression is not
					// the sole use of an input
					if rb.E.Kind == ERef && rb.E.Self {
						continue
					}
					pl.Ret[ri].E = &Expr{Kind: ELit, Val: v, T: t}
					return q, "", true
				}
			}
		}
		return nil, "", false
	}},
	{"semantic:change-disabled-modifier", true, func(p *Prog, plan *Tape) (*Prog, string, bool) {
		q := cloneProg(p)
		r := reachable(q)
		for _, pl := range q.Pipelines {
			if !r[pl.Name] {
				continue
			}
			var boolIn *Expr
			for _, f := range pl.Ins {
				if f.T.Base == "bool" && f.T.Dims == "" {
					boolIn = &Expr{Kind: ERef, Self: true, Path: []string{f.Name}}
				}
			}
			for _, c := range pl.Calls {
				if c.Preflight {
					continue
				}
				if c.Disabled != nil {
					// remove (only if the flag stays used elsewhere), or re-point
					if boolIn != nil && !(c.Disabled.Self && c.Disabled.Path[0] == boolIn.Path[0]) {
						c.Disabled = boolIn
						return q, "", true
					}
					continue
				}
				if boolIn != nil && !(c.Mapped && q.Pipeline(c.Callee) != nil) {
					c.Disabled = boolIn
					return q, "", true
				}
			}
		}
		return nil, "", false
	}},
	{"semantic:retarget-call-behind-alias", true, func(p *Prog, plan *Tape) (*Prog, string, bool) {
		// the call keeps its name but now invokes a different callable (which the
		// original sources already declared)
		q := cloneProg(p)
		r := reachable(q)
		for _, pl := range q.Pipelines {
			if !r[pl.Name] {
				continue
			}
			for _, c := range pl.Calls {
				if q.Stage(c.Callee+"_ALT") != nil {
					c.Callee = c.Callee + "_ALT"
					return q, "", true
				}
			}
		}
		return nil, "", false
	}},
	{"semantic:retarget-wildcard-binding", true, func(p *Prog, plan *Tape) (*Prog, string, bool) {
		// `* = WFIRST` becomes `* = WSECOND`: another call of the same stage, other values
		q := cloneProg(p)
		r := reachable(q)
		for _, pl := range q.Pipelines {
			if !r[pl.Name] {
				continue
			}
			for _, c := range pl.Calls {
				for i := range c.Binds {
					if c.Binds[i].Param != "*" || c.Binds[i].E == nil || c.Binds[i].E.Kind != ERef || c.Binds[i].E.Self || len(c.Binds[i].E.Path) != 0 {
						continue
					}
					var from *CallDef
					for _, o := range pl.Calls {
						if o.Id == c.Binds[i].E.Call {
							from = o
						}
					}
					for _, o := range pl.Calls {
						if from != nil && o != from && o != c && o.Callee == from.Callee && !o.Mapped && !from.Mapped {
							e := *c.Binds[i].E
							e.Call = o.Id
							c.Binds = append([]Bind(nil), c.Binds...)
							c.Binds[i].E = &e
							return q, "", true
						}
					}
				}
			}
		}
		return nil, "", false
	}},
	{"semantic:retarget-reference-member", true, func(p *Prog, plan *Tape) (*Prog, string, bool) {
		// a reference keeps its root (self.x / CALL.out) but projects a different
		// member of the same struct, of the same type: self.cfg.lanes -> self.cfg.reads
		q := cloneProg(p)
		for _, pl := range q.Pipelines {
			for _, c := range pl.Calls {
				for i := range c.Binds {
					c.Binds[i].E = cloneExpr(c.Binds[i].E)
				}
			}
			for i := range pl.Ret {
				pl.Ret[i].E = cloneExpr(pl.Ret[i].E)
			}
		}
		r := reachable(q)
		for _, pl := range q.Pipelines {
			if !r[pl.Name] {
				continue
			}
			rootType := func(e *Expr) (Ty, []string, bool) {
				if e.Self {
					for _, f := range pl.Ins {
						if f.Name == e.Path[0] {
							return f.T, e.Path[1:], true
						}
					}
					return Ty{}, nil, false
				}
				if len(e.Path) == 0 {
					return Ty{}, nil, false
				}
				for _, c := range pl.Calls {
					if c.Id == e.Call {
						_, outs, _ := q.CalleeSig(c.Callee)
						for _, f := range outs {
							if f.Name == e.Path[0] {
								return f.T, e.Path[1:], true
							}
						}
					}
				}
				return Ty{}, nil, false
			}
			try := func(e *Expr) bool {
				if e == nil || e.Kind != ERef {
					return false
				}
				t, rest, ok := rootType(e)
				if !ok || len(rest) == 0 {
					return false
				}
				// walk to the struct which holds the last member
				for _, m := range rest[:len(rest)-1] {
					sd := q.Struct(t.Base)
					if sd == nil {
						return false
					}
					found := false
					for _, f := range sd.Fields {
						if f.Name == m {
							t = Ty{f.T.Base, t.Dims + f.T.Dims}
							found = true
						}
					}
					if !found {
						return false
					}
				}
				sd := q.Struct(t.Base)
				if sd == nil {
					return false
				}
				last := rest[len(rest)-1]
				var lt Ty
				for _, f := range sd.Fields {
					if f.Name == last {
						lt = f.T
					}
				}
				for _, f := range sd.Fields {
					if f.Name != last && f.T == lt {
						e.Path = append(append([]string{}, e.Path[:len(e.Path)-1]...), f.Name)
						return true
					}
				}
				return false
			}
			var walk func(e *Expr) bool
			walk = func(e *Expr) bool {
				if e == nil {
					return false
				}
				if try(e) {
					return true
				}
				for _, x := range e.Elems {
					if walk(x) {
						return true
					}
				}
				return false
			}
			for _, c := range pl.Calls {
				for _, b := range c.Binds {
					if walk(b.E) {
						return q, "", true
					}
				}
			}
			for _, b := range pl.Ret {
				if walk(b.E) {
					return q, "", true
				}
			}
		}
		return nil, "", false
	}},
	{"semantic:integer-literal-to-fractional-float", true, func(p *Prog, plan *Tape) (*Prog, string, bool) {
		// factor = 1  ->  factor = 1.5 (same integer part) on a float parameter
		q := cloneProg(p)
		r := reachable(q)
		var frac func(v interface{}) (interface{}, bool)
		frac = func(v interface{}) (interface{}, bool) {
			switch x := v.(type) {
			case int64:
				return float64(x) + 0.5, true
			case []interface{}:
				for i := range x {
					if nv, ok := frac(x[i]); ok {
						c := append([]interface{}(nil), x...)
						c[i] = nv
						return c, true
					}
				}
			}
			return nil, false
		}
		for _, pl := range q.Pipelines {
			if !r[pl.Name] {
				continue
			}
			for _, c := range pl.Calls {
				for i, b := range c.Binds {
					if b.E != nil && b.E.Kind == ELit && b.E.T.Base == "float" {
						if nv, ok := frac(b.E.Val); ok {
							ne := *b.E
							ne.Val = nv
							c.Binds[i].E = &ne
							return q, "", true
						}
					}
				}
			}
		}
		return nil, "", false
	}},
	{"semantic:change-top-call-argument", true, func(p *Prog, plan *Tape) (*Prog, string, bool) {
		q := cloneProg(p)
		mutSel = plan.Draw(6)
		defer func() { mutSel = 0 }()
		for bi, b := range q.Top.Binds {
			if ne, ok := mutExprLit(b.E); ok {
				q.Top.Binds[bi].E = ne
				return q, "", true
			}
		}
		return nil, "", false
	}},
	{"cosmetic:comments", false, func(p *Prog, plan *Tape) (*Prog, string, bool) { return cloneProg(p), "comments", true }},
	{"cosmetic:whitespace", false, func(p *Prog, plan *Tape) (*Prog, string, bool) { return cloneProg(p), "whitespace", true }},
	{"cosmetic:reorder-declarations", false, func(p *Prog, plan *Tape) (*Prog, string, bool) {
		q := cloneProg(p)
		for i, j := 0, len(q.Stages)-1; i < j; i, j = i+1, j-1 {
			q.Stages[i], q.Stages[j] = q.Stages[j], q.Stages[i]
		}
		return q, "", len(q.Stages) > 1
	}},
	{"cosmetic:rename-file-type", false, func(p *Prog, plan *Tape) (*Prog, string, bool) {
		if len(p.FileTypes) == 0 {
			return nil, "", false
		}
		return cloneProg(p), "filetype", true
	}},
	{"cosmetic:move-to-include", false, func(p *Prog, plan *Tape) (*Prog, string, bool) { return cloneProg(p), "include", true }},
	{"cosmetic:none", false, func(p *Prog, plan *Tape) (*Prog, string, bool) { return cloneProg(p), "", true }},
}

// writeSplit writes the program as call file + declarations (+ optional second
// include file), applying a textual cosmetic transform.
func (r *Run) writeSplit(p *Prog, transform string) error {
	os.MkdirAll(r.MroDir, 0755)
	os.WriteFile(path.Join(r.MroDir, "stagebin"), []byte("#!/bin/false\n"), 0755)
	decls, call := p.Render()
	extra := ""
	switch transform {
	case "comments":
		decls = "# a comment at the top\n" + strings.ReplaceAll(decls, "\nstage ", "\n# about this stage\nstage ")
		decls = strings.ReplaceAll(decls, "\npipeline ", "\n# about this pipeline\n# second line\npipeline ")
	case "whitespace":
		decls = strings.ReplaceAll(decls, "    ", "\t  ")
		decls = strings.ReplaceAll(decls, ",\n", " ,\n")
	case "filetype":
		for _, ft := range p.FileTypes {
			decls = strings.ReplaceAll(decls, "filetype "+ft+";", "filetype "+ft+"x;")
			decls = strings.ReplaceAll(decls, " "+ft+" ", " "+ft+"x ")
			decls = strings.ReplaceAll(decls, " "+ft+"[", " "+ft+"x[")
			decls = strings.ReplaceAll(decls, "<"+ft+">", "<"+ft+"x>")
			decls = strings.ReplaceAll(decls, "<"+ft+"[", "<"+ft+"x[")
		}
	case "include":
		// move everything before the first pipeline into a second file
		if i := strings.Index(decls, "\npipeline "); i > 0 {
			extra = decls[:i+1]
			decls = "@include \"more.mro\"\n\n" + decls[i+1:]
		}
	}
	if extra != "" {
		if err := os.WriteFile(path.Join(r.MroDir, "more.mro"), []byte(extra), 0644); err != nil {
			return err
		}
	} else {
		os.Remove(path.Join(r.MroDir, "more.mro"))
	}
	if err := os.WriteFile(path.Join(r.MroDir, "decls.mro"), []byte(decls), 0644); err != nil {
		return err
	}
	return os.WriteFile(path.Join(r.MroDir, "pipeline.mro"), []byte("@include \"decls.mro\"\n\n"+call), 0644)
}

// templateStructRefProg: struct-typed pipeline inputs and struct-typed stage
// outputs whose members (several of the same type) are projected by references,
// directly, through a sub-pipeline and inside literals - the edit catalogue's
// member retargeting has something to bite on in every binding position.
func templateStructRefProg(plan *Tape) *Prog {
	p := &Prog{}
	intT, strT := Ty{Base: "int"}, Ty{Base: "string"}
	cfgS := &StructDef{Name: "CFG", Fields: []Field{{"lanes", intT}, {"reads", intT}, {"name", strT}, {"tag", strT}}}
	resS := &StructDef{Name: "RES", Fields: []Field{{"total", intT}, {"other", intT}, {"cfg", Ty{Base: "CFG"}}}}
	p.Structs = []*StructDef{cfgS, resS}
	cfgT, resT := Ty{Base: "CFG"}, Ty{Base: "RES"}
	ref := func(call string, path ...string) *Expr { return &Expr{Kind: ERef, Call: call, Path: path} }
	self := func(path ...string) *Expr { return &Expr{Kind: ERef, Self: true, Path: path} }
	p.Stages = []*StageDef{
		{Name: "USE", SrcKind: "comp", Ins: []Field{{"count", intT}, {"label", strT}}, Outs: []Field{{"res", resT}, {"n", intT}}},
		{Name: "SUM", SrcKind: "comp", Ins: []Field{{"xs", intT.ArrayOf()}, {"c", cfgT}, {"scale", Ty{Base: "float"}}, {"weights", Ty{Base: "float", Dims: "a"}}}, Outs: []Field{{"sum", intT}}},
	}
	inner := &PipelineDef{Name: "INNERS", Ins: []Field{{"cfg", cfgT}}, Outs: []Field{{"n", intT}, {"back", intT}}}
	inner.Calls = []*CallDef{{Callee: "USE", Id: "USE", Binds: []Bind{{"count", self("cfg", "reads"), false}, {"label", self("cfg", "tag"), false}}}}
	inner.Ret = []Bind{{"n", ref("USE", "res", "total"), false}, {"back", self("cfg", "lanes"), false}}
	top := &PipelineDef{Name: "TOPS", Ins: []Field{{"cfg", cfgT}, {"k", intT}}}
	top.Calls = []*CallDef{
		{Callee: "USE", Id: "USE", Binds: []Bind{{"count", self("cfg", "lanes"), false}, {"label", self("cfg", "name"), false}}},
		{Callee: "INNERS", Id: "INNERS", Binds: []Bind{{"cfg", self("cfg"), false}}},
		{Callee: "SUM", Id: "SUM", Binds: []Bind{
			{"xs", &Expr{Kind: EArr, T: intT.ArrayOf(), Elems: []*Expr{self("cfg", "reads"), ref("USE", "res", "other"), self("k")}}, false},
			{"c", ref("USE", "res", "cfg"), false},
			// float parameters given integer-written literals
			{"scale", &Expr{Kind: ELit, Val: int64(1 + plan.Draw(4)), T: Ty{Base: "float"}}, false},
			{"weights", &Expr{Kind: ELit, Val: []interface{}{int64(1), int64(2)}, T: Ty{Base: "float", Dims: "a"}}, false}}},
	}
	if plan.Draw(2) == 0 {
		top.Calls[0].Disabled = nil
		top.Calls = append(top.Calls, &CallDef{Callee: "USE", Id: "USE_2", Binds: []Bind{{"count", ref("USE", "res", "cfg", "lanes"), false}, {"label", ref("USE", "res", "cfg", "tag"), false}}})
	}
	top.Outs = []Field{{"total", intT}, {"lanes", intT}, {"sum", intT}}
	top.Ret = []Bind{{"total", ref("USE", "res", "total"), false}, {"lanes", self("cfg", "lanes"), false}, {"sum", ref("SUM", "sum"), false}}
	p.Pipelines = []*PipelineDef{inner, top}
	cfgLit := NewOMap()
	cfgLit.Set("lanes", int64(2+plan.Draw(5)))
	cfgLit.Set("reads", int64(10+plan.Draw(50)))
	cfgLit.Set("name", "sample")
	cfgLit.Set("tag", "t"+fmt.Sprint(plan.Draw(9)))
	p.Top = &CallDef{Callee: "TOPS", Id: "TOPS", Binds: []Bind{
		{"cfg", &Expr{Kind: ELit, Val: cfgLit, T: cfgT}, false},
		{"k", &Expr{Kind: ELit, Val: int64(plan.Draw(100)), T: intT}, false}}}
	return p
}

func c15Case(c *Ctx) {
	gcfg := swarmGen(c.Plan, c.thorough())
	gcfg.Files = c.Plan.Draw(3) == 0
	gcfg.Disabled = true
	prog := Generate(c.Plan, gcfg)
	if c.Plan.Draw(6) == 0 {
		prog = templateStructRefProg(c.Plan)
		c.Res.Probes["struct-reference-template"]++
	}
	if c.Plan.Draw(3) == 0 {
		// an output nobody refers to, of a collection type: what the type edits
		// (map dimension, array depth) can change while the program still compiles
		shapes := []Ty{{"txt", "m"}, {"txt", "ma"}, {"txt", "maa"}, {"txt", "a"}, {"txt", "aa"}, {"int", "m"}, {"int", "ma"}, {"int", "aa"}, {"string", "am"}, {"file", "m"}}
		for _, st := range prog.Stages {
			if reachable(prog)[st.Name] && !strings.HasPrefix(st.Name, "PFST") && c.Plan.Draw(2) == 0 {
				t := shapes[c.Plan.Draw(len(shapes))]
				anyMapped := false
				for _, pl := range prog.Pipelines {
					for _, cc := range pl.Calls {
						if cc.Mapped {
							anyMapped = true
						}
					}
				}
				if anyMapped && strings.Contains(t.Dims, "m") {
					// a typed-map output of a callee that is map-called over a typed
					// map makes mrp panic when it serialises the final state
					// (DESIGN.md section 14, D4)
					t = Ty{t.Base, "aa"}
				}
				if t.Base == "txt" {
					has := false
					for _, ft := range prog.FileTypes {
						if ft == "txt" {
							has = true
						}
					}
					if !has {
						prog.FileTypes = append(prog.FileTypes, "txt")
					}
				}
				st.Outs = append(st.Outs, Field{"zz_unused", t})
				c.Res.Probes["unreferenced-collection-output-added"]++
				break
			}
		}
	}
	// declare (without using it) an alternative version of one reachable stage: same
	// inputs, one more output, opposite split behaviour
	for _, st := range prog.Stages {
		if reachable(prog)[st.Name] && !strings.HasPrefix(st.Name, "PFST") {
			alt := *st
			alt.Name = st.Name + "_ALT"
			alt.Outs = append(append([]Field(nil), st.Outs...), Field{"alt_extra", Ty{Base: "int"}})
			if st.Split {
				alt.Split, alt.ChunkIns, alt.ChunkOuts = false, nil, nil
			} else {
				alt.Split = true
				alt.ChunkIns = []Field{{"c0", Ty{Base: "int"}}}
				alt.ChunkOuts = []Field{{"p0", Ty{Base: "int"}}}
			}
			alt.Retain = nil
			prog.Stages = append(prog.Stages, &alt)
			if c.Plan.Draw(2) == 0 {
				// ... and in half of the cases also call it, right before a call of
				// the original with the same bindings: an edit which retargets the
				// original's call then points at a callable the pipeline already uses
			addCall:
				for _, pl := range prog.Pipelines {
					if !reachable(prog)[pl.Name] {
						continue
					}
					for i, cc := range pl.Calls {
						if cc.Callee == st.Name && !cc.Mapped && cc.Disabled == nil {
							ac := &CallDef{Callee: alt.Name, Id: alt.Name + "_USED", Binds: append([]Bind(nil), cc.Binds...)}
							pl.Calls = append(pl.Calls[:i], append([]*CallDef{ac}, pl.Calls[i:]...)...)
							c.Res.Probes["alternative-stage-also-called"]++
							break addCall
						}
					}
				}
			}
			break
		}
	}
	if c.Plan.Draw(3) == 0 {
		// a wildcard binding: a stage called twice with different arguments, and a
		// consumer taking all its inputs from the first of the two calls (`* = WFIRST`)
		intT := Ty{Base: "int"}
		if top := prog.Pipeline(prog.Top.Callee); top != nil && prog.Stage("WSRC") == nil {
			prog.Stages = append(prog.Stages,
				&StageDef{Name: "WSRC", SrcKind: "comp", Ins: []Field{{"k", intT}}, Outs: []Field{{"wa", intT}, {"wb", intT}}},
				&StageDef{Name: "WSINK", SrcKind: "comp", Ins: []Field{{"wa", intT}, {"wb", intT}}, Outs: []Field{{"done", intT}}})
			lit := func(v int) *Expr { return &Expr{Kind: ELit, Val: int64(v), T: intT} }
			top.Calls = append(top.Calls,
				&CallDef{Callee: "WSRC", Id: "WFIRST", Binds: []Bind{{"k", lit(1), false}}},
				&CallDef{Callee: "WSRC", Id: "WSECOND", Binds: []Bind{{"k", lit(2), false}}},
				&CallDef{Callee: "WSINK", Id: "WSINK", Binds: []Bind{{"*", &Expr{Kind: ERef, Call: "WFIRST"}, false}}})
			c.Res.Probes["programs-with-wildcard-binding"]++
		}
	}
	fcfg := &FCfg{MaxLen: 1 + c.Plan.Draw(3), MaxChunks: c.Plan.Draw(3), Salt: "c15"}
	flags := append(baseFlags(c.Plan), "--vdrmode=disable")
	c.Res.Shape = progShape(prog)
	if c.Plan.Draw(4) == 0 {
		c15Lock(c, prog, fcfg, flags)
		return
	}
	base := &RunCfg{Prog: prog, FCfg: fcfg, MaxSteps: 60000, Flags: flags, SplitFiles: true}
	swarmSched(c.Plan, base)
	gatesAfterInvoke := 0
	twin := c.RunOnce(base, func(r *Run) {
		r.StepHooks = append(r.StepHooks, func() {
			if gatesAfterInvoke == 0 && r.Mrp != nil {
				if _, err := os.Stat(path.Join(r.PsDir, "_timestamp")); err == nil {
					gatesAfterInvoke = r.Mrp.Gates
				}
			}
		})
	})
	c.Res.Class = "twin-" + twin.Class()
	if twin.Class() != "complete" || len(twin.Panics) > 0 {
		if twin.Class() == "failed" {
			c.Res.Notes = append(c.Res.Notes, "base run failed: "+lastLines(twin.outBuf.String(), 6))
		}
		return
	}
	act, err := twin.ReadTopOuts()
	if err != nil {
		return
	}
	twinOuts := Canon(twin.normFiles(act))
	gates := twin.Mrp.Gates
	// pick an edit that applies
	var ed progEdit
	var edited *Prog
	transform := ""
	for try := 0; try < 8 && edited == nil; try++ {
		ed = edits[c.Plan.Draw(len(edits))]
		if q, tr, ok := ed.apply(prog, c.Plan); ok {
			edited, transform = q, tr
		}
	}
	if edited == nil {
		c.Res.Class = "no-edit-applies"
		return
	}
	c.Res.Class = "checked"
	c.Res.Probes["edit:"+ed.name]++
	cfg := &RunCfg{Prog: prog, FCfg: fcfg, MaxSteps: 60000, Flags: flags, SplitFiles: true,
		WMrp: base.WMrp, WJob: base.WJob, WAux: base.WAux, WTime: base.WTime, MapMode: base.MapMode, MapSalt: base.MapSalt}
	at := gatesAfterInvoke + 1 + c.Plan.Draw(gates-gatesAfterInvoke+1)
	cfg.Crashes = []CrashSpec{{Inc: 1, AtGate: at, Kind: "kill"}}
	cfg.Restarts = 1
	cfg.RestartProg = func(inc int) *Prog { return edited }
	cfg.RestartTransform = transform
	r := c.RunOnce(cfg, nil)
	c.Res.Nontrivial = len(r.Jobs) >= 1
	add := func(oracle, msg string) {
		c.Res.Violations = append(c.Res.Violations, Violation{"C15", oracle, "edit " + ed.name + ": " + msg, r.Steps})
	}
	if r.Inc < 2 {
		c.Res.Probes["finished-before-interruption"]++
	} else {
		out2 := lastIncOutput(r.outBuf.String())
		restartSeq := lastRestartSeq(r)
		if ed.semantic {
			last := r.ExitCodes[len(r.ExitCodes)-1]
			if last == 0 {
				add("semantic-edit-accepted", fmt.Sprintf("re-attach with a changed program was not refused (exit codes %v): %s", r.ExitCodes, lastLines(out2, 6)))
			}
			for _, j := range r.Jobs {
				if j.Inc >= 2 {
					add("refused-attach-started-jobs", "job "+j.Key()+" started by the refused incarnation")
					break
				}
			}
			for _, ev := range vos.W.Events {
				if ev.Seq > restartSeq && ev.PKind == "mrp" && (ev.Op == "write" || ev.Op == "remove" || ev.Op == "removeall" || ev.Op == "rename") &&
					ev.Path != "ps/_lock" && ev.Path != "ps/_log" {
					add("refused-attach-modified-pipestance", "the refused incarnation performed "+ev.Op+" "+ev.Path)
					break
				}
			}
			if _, err := os.Stat(path.Join(r.PsDir, "_lock")); err == nil && last != 0 {
				add("refused-attach-left-lock", "_lock left behind by the refused incarnation")
			}
		} else {
			if r.Class() != "complete" && r.Class() != "step-budget" {
				oracle := "cosmetic-edit-refused"
				if ed.name == "cosmetic:rename-file-type" && hasFileCollectionParam(prog) {
					oracle = "file-type-rename-refused-for-collection-of-files"
				}
				add(oracle, fmt.Sprintf("re-attach after a cosmetic edit failed (exit codes %v): %s", r.ExitCodes, lastLines(out2, 8)))
			} else if a2, err := r.ReadTopOuts(); err != nil {
				add("outs-missing", err.Error())
			} else if got := Canon(r.normFiles(a2)); got != twinOuts {
				oracle := "outs-differ-after-cosmetic-edit"
				if ed.name == "cosmetic:rename-file-type" {
					// was the first mrp killed inside post-processing, after it had
					// moved an output file into outs/ under the old type's extension?
					crash := crashSeq(r)
					for _, ev := range vos.W.Events {
						if ev.Seq < crash && ev.Op == "rename" && strings.HasPrefix(ev.Path2, "ps/outs/") && ev.Err == "" {
							oracle = "file-type-renamed-after-interrupted-postprocess"
						}
					}
				}
				add(oracle, fmt.Sprintf("%s vs %s", got, twinOuts))
			}
		}
	}
	if len(c.Res.Violations) > 0 || c.Keep || c.Res.Sample == nil {
		s := describeRun(r, true)
		s["edit"] = ed.name
		s["edited_program"] = edited.Source()
		s["mrp_output_tail"] = lastLines(r.outBuf.String(), 30)
		c.Res.Sample = s
	}
}

func lastIncOutput(s string) string {
	const banner = "Martian Runtime"
	i := strings.LastIndex(s, banner)
	if i < 0 {
		return s
	}
	return s[i:]
}

// c15Lock: while an mrp is alive and holds the lock, a second instance tries to
// attach for writing through the real runtime API.
func c15Lock(c *Ctx, prog *Prog, fcfg *FCfg, flags []string) {
	cfg := &RunCfg{Prog: prog, FCfg: fcfg, MaxSteps: 60000, Flags: append(flags, "--autoretry=2")}
	swarmSched(c.Plan, cfg)
	// a transient one-shot failure makes the first mrp unlock and re-lock in-process
	if c.Plan.Draw(2) == 0 {
		cfg.JobFaults = map[string]string{}
	}
	// two attach attempts by other mrp instances while the first one runs: both must
	// be refused, and neither may disturb the owner's lock
	type attempt struct {
		at                         int
		readOnly                   bool // an inspecting instance (mrp --inspect): attaches without the lock
		attempted, lockAtStart, ok bool
		err                        error
		startSeq, endSeq           int
		pid                        int
	}
	atts := []*attempt{{at: 30 + c.Plan.Draw(500)}}
	atts = append(atts, &attempt{at: atts[0].at + 5 + c.Plan.Draw(200)})
	if c.Plan.Draw(3) == 0 {
		// the first visitor only inspects; it may attach, but must not write anything,
		// and the writer which comes after it must still be refused
		atts[0].readOnly = true
	}
	r := c.RunOnce(cfg, func(r *Run) {
		if cfg.JobFaults != nil {
			r.OnJobStart = func(j *JobRec) {
				if len(cfg.JobFaults) == 0 && j.Phase == "main" {
					cfg.JobFaults[j.Key()+":"+j.Phase+"#1"] = "transient-error"
				}
			}
		}
		r.StepHooks = append(r.StepHooks, func() {
			for i, a := range atts {
				a := a
				if a.attempted || r.Mrp == nil || r.Mrp.Exited || r.Mrp.Gates < a.at {
					continue
				}
				if i > 0 && atts[i-1].endSeq == 0 {
					continue // one at a time
				}
				a.attempted = true
				_, err := os.Stat(path.Join(r.PsDir, "_lock"))
				a.lockAtStart = err == nil
				a.startSeq = vos.NextSeq()
				name := fmt.Sprintf("mrp%d", i+2)
				p2 := vproc.NewProc(name, name, []string{name}, nil, r.Root, nil)
				a.pid = p2.Pid
				vproc.StartProc(p2, func() int {
					opts := core.DefaultRuntimeOptions()
					opts.VdrMode = core.VdrDisable
					rt, err := opts.NewRuntime()
					if err != nil {
						a.err = err
						a.endSeq = vos.NextSeq()
						return 1
					}
					src, _ := os.ReadFile(path.Join(r.MroDir, "pipeline.mro"))
					f := core.NewRuntimePipestanceFactory(rt, string(src), path.Join(r.MroDir, "pipeline.mro"), "ps",
						[]string{r.MroDir}, r.PsDir, "", nil, true, a.readOnly, nil)
					var ps *core.Pipestance
					if a.readOnly {
						// mrp --inspect only ever re-attaches, then runs the same loop
						// as a writer (every mutating step is inhibited by readOnly())
						ps, err = f.ReattachToPipestance(context.Background())
						if err == nil && ps != nil {
							ctx := context.Background()
							ps.LoadMetadata(ctx)
							for k := 0; k < 3; k++ {
								ps.RefreshState(ctx)
								ps.CheckHeartbeats(ctx)
								ps.StepNodes(ctx)
							}
						}
					} else {
						ps, err = f.InvokePipeline()
						if err != nil {
							ps, err = f.ReattachToPipestance(context.Background())
						}
					}
					a.err = err
					a.ok = err == nil && ps != nil
					a.endSeq = vos.NextSeq()
					return 0
				})
				return
			}
		})
	})
	c.Res.Class = "lock-" + r.Class()
	c.Res.Nontrivial = atts[0].attempted
	if !atts[0].attempted || atts[0].endSeq == 0 {
		c.Res.Probes["attach-not-attempted"]++
		return
	}
	pe, _ := vproc.Snapshot()
	var info []interface{}
	foreignRemoval := false
	for i, a := range atts {
		if !a.attempted || a.endSeq == 0 {
			continue
		}
		c.Res.Probes["second-attach-attempts"]++
		unlockedDuring := false
		for _, ev := range vos.W.Events {
			if ev.Seq > a.startSeq && ev.Seq < a.endSeq && ev.Path == "ps/_lock" && ev.Op == "remove" && ev.Pid == r.Mrps[0].Pid {
				unlockedDuring = true
			}
		}
		// an earlier attempt which removed the lock makes later ones meaningless
		if foreignRemoval {
			continue
		}
		firstAlive := true
		for _, e := range pe {
			if e.Pid == r.Mrps[0].Pid && (e.Kind == "exit" || e.Kind == "kill") && e.Seq < a.endSeq {
				firstAlive = false
			}
		}
		info = append(info, map[string]interface{}{"attempt": i + 1, "lock_at_start": a.lockAtStart, "unlocked_during": unlockedDuring, "ok": a.ok, "err": fmt.Sprint(a.err)})
		if a.readOnly {
			c.Res.Probes["read-only-attach-attempts"]++
			for _, ev := range vos.W.Events {
				if ev.Seq > a.startSeq && ev.Pid == a.pid && ev.Err == "" && (strings.HasPrefix(ev.Path, "ps/") || ev.Path == "ps") {
					// Tolerated: restoring the forks of a call mapped over an empty or
					// null collection writes that fork's _disabled marker and null
					// _outs (Fork.writeDisable via RestoreForks) even when attached
					// read-only - the same bytes the owner writes, nothing is started,
					// nothing removed.  Everything else is a write.
					base := path.Base(ev.Path)
					if ev.Path != "ps/_lock" && (ev.Op == "mkdir" || ev.Op == "mkdirall" ||
						(ev.Op == "write" && (base == "_outs" || base == "_disabled") && strings.Contains(ev.Path, "/fork"))) {
						c.Res.Probes["read-only-visitor-restored-an-empty-fork"]++
						continue
					}
					if ev.Path == "ps/_lock" {
						foreignRemoval = true
					}
					c.Res.Violations = append(c.Res.Violations, Violation{"C15", "read-only-instance-wrote",
						fmt.Sprintf("attempt %d: an instance attached read-only (inspect) performed '%s' on %s while the first mrp held the pipestance", i+1, ev.Op, ev.Path), r.Steps})
					break
				}
			}
			continue
		}
		if a.lockAtStart && !unlockedDuring && firstAlive {
			c.Res.Probes["attach-while-locked"]++
			if a.ok {
				c.Res.Violations = append(c.Res.Violations, Violation{"C15", "second-mrp-attached-while-locked",
					fmt.Sprintf("attempt %d: another instance attached for writing while the first mrp was alive and _lock existed throughout the attempt", i+1), r.Steps})
			} else if a.err != nil && !strings.Contains(a.err.Error(), "locked by") {
				c.Res.Notes = append(c.Res.Notes, "second attach failed with: "+clip(a.err.Error(), 120))
			}
			// the refused instance must leave the owner's lock alone
			for _, ev := range vos.W.Events {
				if ev.Seq > a.startSeq && ev.Path == "ps/_lock" && ev.Pid == a.pid && ev.Err == "" &&
					(ev.Op == "remove" || ev.Op == "write" || ev.Op == "rename" || ev.Op == "removeall") {
					foreignRemoval = true
					c.Res.Violations = append(c.Res.Violations, Violation{"C15", "refused-instance-touched-owners-lock",
						fmt.Sprintf("attempt %d: the instance which was refused (%v) performed '%s' on _lock held by the live first mrp", i+1, a.err, ev.Op), r.Steps})
					break
				}
			}
		}
	}
	if len(c.Res.Violations) > 0 || c.Res.Sample == nil {
		s := describeRun(r, true)
		s["attach_attempts"] = info
		c.Res.Sample = s
	}
}

func init() {
	Profiles["C15"] = c15Case
}

// hasFileCollectionParam reports whether some parameter is an array or typed map
// of a user file type.
func hasFileCollectionParam(p *Prog) bool {
	chk := func(fs []Field) bool {
		for _, f := range fs {
			if f.T.Dims != "" && p.IsFileType(f.T.Base) {
				return true
			}
		}
		return false
	}
	for _, s := range p.Stages {
		if chk(s.Ins) || chk(s.Outs) {
			return true
		}
	}
	for _, pl := range p.Pipelines {
		if chk(pl.Ins) || chk(pl.Outs) {
			return true
		}
	}
	return false
}
