package psim

import (
	"fmt"
	"sort"
	"strings"
)

// ---------------------------------------------------------------------------
// Reference evaluator: the executable model of MRO dataflow semantics.
//
// It interprets the program model (not martian's AST) and *follows the recorded
// history*: whenever it reaches a stage instance it computes the arguments that
// instance must receive from the outputs that upstream jobs actually produced,
// looks up the job that ran with those arguments, checks it, and continues with
// that job's actual outputs.  It never re-computes stage code.  Besides values
// it tracks, per value, which producer instances it came from (minimal data
// dependency), which C02 uses.
// ---------------------------------------------------------------------------

type absentT struct{}

// Absent stands for the result of a call that produced nothing (disabled, or
// mapped over an empty or null collection).  The property allows it to appear as
// null, an empty collection or a collection of nulls.
var Absent = absentT{}

type TV struct {
	T    Ty
	Kind byte // 0: atomic plain value V; 'a','m': collection of Kids; 's': struct of Kids
	V    interface{}
	Kids []*TV
	Keys []string
	Deps []*Inst
}

// Inst is one stage instance (one fork of one stage call).
type Inst struct {
	Node      string
	Stage     *StageDef
	Index     string // readable index path, e.g. "PL3[1]/ST2{k0}"
	MapKey    string // key/index at the innermost enclosing mapped call ("" if none)
	MapKind   byte
	Args      map[string]interface{}
	Deps      []*Inst
	Group     *ForkGroup
	Outs      map[string]interface{}
	DoneSeq   int
	Ambig     bool
	Shared    bool
	Preflight bool
	Call      *CallDef
}

// ForkGroup is all job processes of one fork directory of one node.
type ForkGroup struct {
	Node, Fork string
	Jobs       []*JobRec
	Claimed    *Inst
}

type Eval struct {
	P            *Prog
	Groups       map[string][]*ForkGroup // by node
	Insts        []*Inst
	Problems     []Violation
	Rejected     string // non-empty: the program is invalid at run time (not a violation)
	Ambiguous    int
	Incomplete   bool // evaluation could not be completed (after a reported problem)
	NDisabled    int
	NStaticNull  int
	NNested      int
	NNestedEmpty int // a map call inside a map-called pipeline whose own source was empty or null for some outer element
	NMapped      int
	NEmptyMap    int
	NNarrow      int
	NProj        int
	NShared      int
	// node paths of pipeline calls that were mapped over an empty or null
	// collection (or disabled): nothing below them should execute
	EmptyMapped    []string
	TolerantAbsent int
}

func unionDeps(a []*Inst, b ...*Inst) []*Inst {
	if len(b) == 0 {
		return a
	}
	out := append([]*Inst(nil), a...)
	for _, x := range b {
		found := false
		for _, y := range out {
			if x == y {
				found = true
				break
			}
		}
		if !found {
			out = append(out, x)
		}
	}
	return out
}

func (e *Eval) problem(prop, oracle, format string, a ...interface{}) {
	e.Problems = append(e.Problems, Violation{Property: prop, Oracle: oracle, Msg: fmt.Sprintf(format, a...)})
}

func absentTV(t Ty, deps []*Inst) *TV { return &TV{T: t, V: Absent, Deps: deps} }

func (tv *TV) isAbsent() bool {
	if tv.Kind != 0 {
		return false
	}
	_, ok := tv.V.(absentT)
	return ok
}

// plain converts a TV to a plain value (with Absent markers).
func (tv *TV) plain() interface{} {
	switch tv.Kind {
	case 0:
		return tv.V
	case 'a':
		out := make([]interface{}, len(tv.Kids))
		for i, k := range tv.Kids {
			out[i] = k.plain()
		}
		return out
	default:
		m := make(map[string]interface{}, len(tv.Kids))
		for i, k := range tv.Kids {
			m[tv.Keys[i]] = k.plain()
		}
		return m
	}
}

func (tv *TV) allDeps() []*Inst {
	d := tv.Deps
	for _, k := range tv.Kids {
		d = unionDeps(d, k.allDeps()...)
	}
	return d
}

// fromPlain wraps a plain value.
func fromPlain(v interface{}, t Ty, deps []*Inst) *TV { return &TV{T: t, V: v, Deps: deps} }

// fieldTy returns the declared type of a struct field.
func (e *Eval) fieldTy(base, field string) (Ty, bool) {
	if s := e.P.Struct(base); s != nil {
		for _, f := range s.Fields {
			if f.Name == field {
				return f.T, true
			}
		}
		return Ty{}, false
	}
	if strings.HasPrefix(base, "@") {
		_, outs, _ := e.P.CalleeSig(base[1:])
		for _, f := range outs {
			if f.Name == field {
				return f.T, true
			}
		}
	}
	return Ty{}, false
}

// project evaluates tv.<field>, mapping through arrays and typed maps.
func (e *Eval) project(tv *TV, field string) *TV {
	e.NProj++
	if tv.T.Dims != "" {
		ft, _ := e.fieldTy(tv.T.Base, field)
		rt := Ty{ft.Base, tv.T.Dims + ft.Dims}
		if tv.isAbsent() {
			return absentTV(rt, tv.Deps)
		}
		switch tv.Kind {
		case 'a', 'm':
			out := &TV{T: rt, Kind: tv.Kind, Keys: tv.Keys, Deps: tv.Deps}
			for _, k := range tv.Kids {
				out.Kids = append(out.Kids, e.project(k, field))
			}
			return out
		}
		// atomic plain collection
		switch v := tv.V.(type) {
		case nil:
			return fromPlain(nil, rt, tv.Deps)
		case []interface{}:
			out := &TV{T: rt, Kind: 'a', Deps: tv.Deps}
			for _, x := range v {
				out.Kids = append(out.Kids, e.project(fromPlain(x, tv.T.Elem(), tv.Deps), field))
			}
			return out
		case map[string]interface{}:
			out := &TV{T: rt, Kind: 'm', Deps: tv.Deps}
			for _, k := range sortedKeys(v) {
				out.Keys = append(out.Keys, k)
				out.Kids = append(out.Kids, e.project(fromPlain(v[k], tv.T.Elem(), tv.Deps), field))
			}
			return out
		}
		return fromPlain(nil, rt, tv.Deps)
	}
	ft, ok := e.fieldTy(tv.T.Base, field)
	if !ok {
		panic(fmt.Sprintf("eval: no field %s in %s", field, tv.T.Base))
	}
	if tv.isAbsent() {
		return absentTV(ft, tv.Deps)
	}
	if tv.Kind == 's' {
		for i, k := range tv.Keys {
			if k == field {
				return tv.Kids[i]
			}
		}
		return fromPlain(nil, ft, tv.Deps)
	}
	if m, ok := tv.V.(map[string]interface{}); ok {
		return fromPlain(m[field], ft, tv.Deps)
	}
	return fromPlain(nil, ft, tv.Deps)
}

// convert narrows a value to the parameter type: struct fields that the target
// struct does not declare are dropped (through arrays and typed maps).
func (e *Eval) convert(tv *TV, t Ty) *TV {
	if tv.isAbsent() {
		return tv
	}
	if t.Dims != "" {
		switch tv.Kind {
		case 'a', 'm':
			out := &TV{T: t, Kind: tv.Kind, Keys: tv.Keys, Deps: tv.Deps}
			for _, k := range tv.Kids {
				out.Kids = append(out.Kids, e.convert(k, t.Elem()))
			}
			return out
		}
		return fromPlain(e.convertPlain(tv.V, t), t, tv.Deps)
	}
	s := e.P.Struct(t.Base)
	if s == nil {
		return tv // primitive, file or untyped map: passed as is
	}
	if tv.Kind == 's' {
		out := &TV{T: t, Kind: 's', Deps: tv.Deps}
		for _, f := range s.Fields {
			var kid *TV
			for i, k := range tv.Keys {
				if k == f.Name {
					kid = tv.Kids[i]
				}
			}
			if kid == nil {
				kid = fromPlain(nil, f.T, nil)
			}
			out.Keys = append(out.Keys, f.Name)
			out.Kids = append(out.Kids, e.convert(kid, f.T))
		}
		if len(tv.Keys) > len(s.Fields) {
			e.NNarrow++
		}
		return out
	}
	return fromPlain(e.convertPlain(tv.V, t), t, tv.Deps)
}

func (e *Eval) convertPlain(v interface{}, t Ty) interface{} {
	if v == nil {
		return nil
	}
	if _, ok := v.(absentT); ok {
		return v
	}
	if t.Dims != "" {
		switch x := v.(type) {
		case []interface{}:
			out := make([]interface{}, len(x))
			for i := range x {
				out[i] = e.convertPlain(x[i], t.Elem())
			}
			return out
		case map[string]interface{}:
			out := make(map[string]interface{}, len(x))
			for k, y := range x {
				out[k] = e.convertPlain(y, t.Elem())
			}
			return out
		}
		return v
	}
	s := e.P.Struct(t.Base)
	if s == nil {
		return v
	}
	m, ok := v.(map[string]interface{})
	if !ok {
		return v
	}
	out := make(map[string]interface{}, len(s.Fields))
	for _, f := range s.Fields {
		out[f.Name] = e.convertPlain(m[f.Name], f.T)
	}
	if len(m) > len(s.Fields) {
		e.NNarrow++
	}
	return out
}

// ---------------------------------------------------------------------------

type scope struct {
	pl         *PipelineDef
	self       map[string]*TV
	calls      map[string]*TV
	path       string // node path of the pipeline call
	index      string
	mapKey     string
	mapKind    byte
	preflights []*Inst
	// what martian's compile-time resolution knows about the pipeline's inputs
	senv map[string]sconst
}

// sconst is the compile-time knowledge about an expression which matters for
// dependencies: martian folds a reference which statically resolves to null
// (an output of a call disabled by a constant, or anything projected out of
// it) to a null literal, so the consumer takes no dependency through it - not
// even on the disabling condition of an enclosing call (makeDisabledExp
// returns the inner null unchanged).
type sconst struct{ null, isTrue bool }

func (e *Eval) staticConst(x *Expr, pl *PipelineDef, senv map[string]sconst) sconst {
	if x == nil {
		return sconst{}
	}
	switch x.Kind {
	case ELit:
		if x.Val == nil {
			return sconst{null: true}
		}
		if b, ok := x.Val.(bool); ok && b {
			return sconst{isTrue: true}
		}
		return sconst{}
	case ERef:
		if x.Self {
			c := senv[x.Path[0]]
			if len(x.Path) > 1 {
				return sconst{null: c.null}
			}
			return c
		}
		if pl == nil {
			return sconst{}
		}
		var cc *CallDef
		for _, k := range pl.Calls {
			if k.Id == x.Call {
				cc = k
			}
		}
		if cc == nil || cc.Mapped {
			return sconst{}
		}
		if cc.Disabled != nil && e.staticConst(cc.Disabled, pl, senv).isTrue {
			return sconst{null: true}
		}
		callee := e.P.Pipeline(cc.Callee)
		if callee == nil || len(x.Path) == 0 {
			return sconst{}
		}
		sub := e.staticEnv(cc, pl, senv)
		for _, rb := range callee.Ret {
			if rb.Param == x.Path[0] {
				c := e.staticConst(rb.E, callee, sub)
				if len(x.Path) > 1 {
					return sconst{null: c.null}
				}
				return c
			}
		}
	}
	return sconst{}
}

func (e *Eval) staticEnv(c *CallDef, pl *PipelineDef, senv map[string]sconst) map[string]sconst {
	sub := map[string]sconst{}
	for _, b := range c.Binds {
		if !b.Split {
			sub[b.Param] = e.staticConst(b.E, pl, senv)
		}
	}
	return sub
}

// staticNullOuts reports, per output of the pipeline called by c, whether it
// statically resolves to null.
func (e *Eval) staticNullOuts(c *CallDef, sc *scope) []bool {
	callee := e.P.Pipeline(c.Callee)
	if callee == nil {
		return nil
	}
	sub := e.staticEnv(c, sc.pl, sc.senv)
	out := make([]bool, len(callee.Ret))
	for i, rb := range callee.Ret {
		out[i] = e.staticConst(rb.E, callee, sub).null
	}
	return out
}

func (e *Eval) evalExpr(x *Expr, sc *scope, want Ty) *TV {
	switch x.Kind {
	case ELit:
		return fromPlain(Plain(x.Val), x.T, nil)
	case ERef:
		var tv *TV
		rest := x.Path
		if x.Self {
			tv = sc.self[x.Path[0]]
			rest = x.Path[1:]
		} else {
			tv = sc.calls[x.Call]
		}
		if tv == nil {
			panic("eval: unresolved reference")
		}
		for _, f := range rest {
			tv = e.project(tv, f)
		}
		return tv
	case EArr:
		out := &TV{T: x.T, Kind: 'a'}
		for _, el := range x.Elems {
			out.Kids = append(out.Kids, e.evalExpr(el, sc, x.T.Elem()))
		}
		return out
	case EMap:
		out := &TV{T: x.T, Kind: 'm'}
		for i, el := range x.Elems {
			out.Keys = append(out.Keys, x.Keys[i])
			out.Kids = append(out.Kids, e.evalExpr(el, sc, x.T.Elem()))
		}
		return out
	case EStruct:
		out := &TV{T: x.T, Kind: 's'}
		s := e.P.Struct(x.T.Base)
		for i, el := range x.Elems {
			var ft Ty
			for _, f := range s.Fields {
				if f.Name == x.Keys[i] {
					ft = f.T
				}
			}
			out.Keys = append(out.Keys, x.Keys[i])
			out.Kids = append(out.Kids, e.evalExpr(el, sc, ft))
		}
		return out
	}
	panic("eval: bad expr")
}

// elements splits a collection TV into its element TVs.
func (e *Eval) elements(tv *TV) (keys []string, elems []*TV, isNull bool) {
	if tv.isAbsent() {
		return nil, nil, true
	}
	switch tv.Kind {
	case 'a':
		for i := range tv.Kids {
			keys = append(keys, fmt.Sprint(i))
		}
		return keys, tv.Kids, false
	case 'm':
		return tv.Keys, tv.Kids, false
	}
	switch v := tv.V.(type) {
	case nil:
		return nil, nil, true
	case []interface{}:
		for i, x := range v {
			keys = append(keys, fmt.Sprint(i))
			elems = append(elems, fromPlain(x, tv.T.Elem(), tv.Deps))
		}
		return keys, elems, false
	case map[string]interface{}:
		for _, k := range sortedKeys(v) {
			keys = append(keys, k)
			elems = append(elems, fromPlain(v[k], tv.T.Elem(), tv.Deps))
		}
		return keys, elems, false
	}
	return nil, nil, true
}

func (e *Eval) absentResult(callee string, mapKind byte, deps []*Inst) *TV {
	t := Ty{Base: "@" + callee}
	if mapKind != 0 {
		t.Dims = string(mapKind)
	}
	return absentTV(t, deps)
}

func (e *Eval) evalCall(c *CallDef, sc *scope) *TV {
	var ddeps []*Inst
	if c.Disabled != nil {
		d := e.evalExpr(c.Disabled, sc, Ty{Base: "bool"})
		ddeps = d.allDeps()
		switch v := d.plain().(type) {
		case bool:
			if v {
				e.NDisabled++
				if pl := e.P.Pipeline(c.Callee); pl != nil && !c.Mapped && len(ddeps) > 0 {
					// disabled at run time: every output is null, but the ones
					// which are null at compile time carry no dependency
					sn := e.staticNullOuts(c, sc)
					res := &TV{T: Ty{Base: "@" + pl.Name}, Kind: 's'}
					for i, rb := range pl.Ret {
						res.Keys = append(res.Keys, rb.Param)
						if sn[i] {
							e.NStaticNull++
							res.Kids = append(res.Kids, absentTV(pl.Outs[i].T, nil))
						} else {
							res.Kids = append(res.Kids, absentTV(pl.Outs[i].T, ddeps))
						}
					}
					return res
				}
				return e.absentResult(c.Callee, 0, ddeps).withMapped(c, e)
			}
		default:
			e.Rejected = "disabled modifier of " + sc.path + "/" + c.Id + " evaluates to null"
			return e.absentResult(c.Callee, 0, ddeps)
		}
	}
	ins, _, _ := e.P.CalleeSig(c.Callee)
	inTy := map[string]Ty{}
	for _, f := range ins {
		inTy[f.Name] = f.T
	}
	if !c.Mapped {
		args := map[string]*TV{}
		for _, b := range c.Binds {
			args[b.Param] = e.convert(e.evalExpr(b.E, sc, inTy[b.Param]), inTy[b.Param])
		}
		res := e.evalCallable(c, args, sc, sc.index, sc.mapKey, sc.mapKind, ddeps)
		if pl := e.P.Pipeline(c.Callee); pl != nil && len(ddeps) > 0 && e.Rejected == "" {
			// outputs of a conditionally disabled pipeline depend on the
			// condition unless they are null at compile time anyway
			sn := e.staticNullOuts(c, sc)
			for i := range res.Kids {
				if i < len(sn) && !sn[i] {
					cp := *res.Kids[i]
					cp.Deps = unionDeps(cp.Deps, ddeps...)
					res.Kids[i] = &cp
				}
			}
		}
		return res
	}
	// mapped call
	e.NMapped++
	if sc.mapKind != 0 {
		e.NNested++
	}
	var keys []string
	var kind byte
	first := true
	srcs := map[string][]*TV{}
	var srcDeps []*Inst
	for _, b := range c.Binds {
		if !b.Split {
			continue
		}
		src := e.evalExpr(b.E, sc, Ty{})
		srcDeps = unionDeps(srcDeps, src.Deps...)
		// the declared collection kind of the source
		k := byte('a')
		if src.T.Dims != "" {
			k = src.T.Dims[0]
		} else if src.Kind == 'm' {
			k = 'm'
		}
		ks, els, isNull := e.elements(src)
		if isNull {
			e.NEmptyMap++
			if sc.mapKind != 0 {
				e.NNestedEmpty++
			}
			e.EmptyMapped = append(e.EmptyMapped, strings.TrimPrefix(sc.path+"/"+c.Id, "/"))
			return absentTV(Ty{Base: "@" + c.Callee, Dims: string(k)}, unionDeps(src.allDeps(), ddeps...))
		}
		if first {
			keys, kind, first = ks, k, false
		} else {
			if len(ks) != len(keys) {
				e.Rejected = fmt.Sprintf("split arguments of %s/%s differ in length", sc.path, c.Id)
				return absentTV(Ty{Base: "@" + c.Callee, Dims: string(k)}, nil)
			}
			for i := range ks {
				if ks[i] != keys[i] {
					e.Rejected = fmt.Sprintf("split arguments of %s/%s differ in keys", sc.path, c.Id)
					return absentTV(Ty{Base: "@" + c.Callee, Dims: string(k)}, nil)
				}
			}
		}
		// element deps: an element taken from a collection also depends on what
		// determined the collection's shape
		for i := range els {
			if len(src.Deps) > 0 {
				cp := *els[i]
				cp.Deps = unionDeps(cp.Deps, src.Deps...)
				els[i] = &cp
			}
		}
		srcs[b.Param] = els
	}
	rt := Ty{Base: "@" + c.Callee, Dims: string(kind)}
	if len(keys) == 0 {
		e.NEmptyMap++
		if sc.mapKind != 0 {
			e.NNestedEmpty++
		}
		e.EmptyMapped = append(e.EmptyMapped, strings.TrimPrefix(sc.path+"/"+c.Id, "/"))
		return absentTV(rt, unionDeps(srcDeps, ddeps...))
	}
	out := &TV{T: rt, Kind: kind, Deps: unionDeps(srcDeps, ddeps...)}
	for i, key := range keys {
		args := map[string]*TV{}
		for _, b := range c.Binds {
			if b.Split {
				args[b.Param] = e.convert(srcs[b.Param][i], inTy[b.Param])
			} else {
				args[b.Param] = e.convert(e.evalExpr(b.E, sc, inTy[b.Param]), inTy[b.Param])
			}
		}
		var idx string
		if kind == 'a' {
			idx = fmt.Sprintf("%s/%s[%s]", sc.index, c.Id, key)
		} else {
			idx = fmt.Sprintf("%s/%s{%s}", sc.index, c.Id, key)
		}
		res := e.evalCallable(c, args, sc, idx, key, kind, unionDeps(srcDeps, ddeps...))
		if kind == 'm' {
			out.Keys = append(out.Keys, key)
		}
		out.Kids = append(out.Kids, res)
	}
	return out
}

func (tv *TV) withMapped(c *CallDef, e *Eval) *TV {
	if c.Mapped {
		// the collection kind is not observable for an absent value
		tv.T.Dims = "a"
		for _, b := range c.Binds {
			if b.Split && b.E.T.Dims != "" && b.E.T.Dims[0] == 'm' {
				tv.T.Dims = "m"
			}
		}
	}
	return tv
}

// evalCallable evaluates one (fork of a) call with evaluated arguments.
func (e *Eval) evalCallable(c *CallDef, args map[string]*TV, sc *scope, index, mapKey string, mapKind byte, extraDeps []*Inst) *TV {
	path := sc.path + "/" + c.Id
	if sc.path == "" {
		path = c.Id
	}
	if st := e.P.Stage(c.Callee); st != nil {
		inst := &Inst{Node: path, Stage: st, Index: index + "/" + c.Id, MapKey: mapKey, MapKind: mapKind,
			Args: map[string]interface{}{}, Preflight: c.Preflight, Call: c}
		deps := append([]*Inst(nil), extraDeps...)
		for _, f := range st.Ins {
			a := args[f.Name]
			inst.Args[f.Name] = a.plain()
			deps = unionDeps(deps, a.allDeps()...)
		}
		if !c.Preflight {
			deps = unionDeps(deps, sc.preflights...)
		}
		inst.Deps = deps
		e.Insts = append(e.Insts, inst)
		e.match(inst)
		res := &TV{T: Ty{Base: "@" + st.Name}, Kind: 's', Deps: []*Inst{inst}}
		for _, o := range st.Outs {
			res.Keys = append(res.Keys, o.Name)
			var v interface{}
			if inst.Outs != nil {
				v = inst.Outs[o.Name]
			} else {
				e.Incomplete = true
			}
			res.Kids = append(res.Kids, fromPlain(v, o.T, []*Inst{inst}))
		}
		return res
	}
	pl := e.P.Pipeline(c.Callee)
	sub := &scope{pl: pl, self: args, calls: map[string]*TV{}, path: path, index: index + "/" + c.Id,
		mapKey: mapKey, mapKind: mapKind, preflights: sc.preflights, senv: e.staticEnv(c, sc.pl, sc.senv)}
	// preflight calls of this pipeline are prerequisites of all its other calls
	for _, cc := range pl.Calls {
		if cc.Preflight {
			before := len(e.Insts)
			sub.calls[cc.Id] = e.evalCall(cc, sub)
			sub.preflights = append(append([]*Inst(nil), sub.preflights...), e.Insts[before:]...)
		}
	}
	for _, cc := range pl.Calls {
		if cc.Preflight {
			continue
		}
		sub.calls[cc.Id] = e.evalCall(cc, sub)
		if e.Rejected != "" {
			break
		}
	}
	res := &TV{T: Ty{Base: "@" + pl.Name}, Kind: 's'}
	if e.Rejected != "" {
		return res
	}
	for i, rb := range pl.Ret {
		res.Keys = append(res.Keys, rb.Param)
		res.Kids = append(res.Kids, e.convert(e.evalExpr(rb.E, sub, pl.Outs[i].T), pl.Outs[i].T))
	}
	return res
}

// ---------------------------------------------------------------------------
// Matching instances to recorded jobs
// ---------------------------------------------------------------------------

func nullish(v interface{}) bool {
	switch x := v.(type) {
	case nil:
		return true
	case absentT:
		return true
	case []interface{}:
		for _, e := range x {
			if !nullish(e) {
				return false
			}
		}
		return true
	case map[string]interface{}:
		for _, e := range x {
			if !nullish(e) {
				return false
			}
		}
		return true
	}
	return false
}

// MatchVal compares an expected value (which may contain Absent) with an actual
// value.
func MatchVal(exp, act interface{}) bool {
	switch x := exp.(type) {
	case absentT:
		return nullish(act)
	case nil:
		return act == nil
	case []interface{}:
		a, ok := act.([]interface{})
		if !ok || len(a) != len(x) {
			if allAbsent(x) && nullish(act) {
				return true
			}
			return false
		}
		for i := range x {
			if !MatchVal(x[i], a[i]) {
				return false
			}
		}
		return true
	case map[string]interface{}:
		a, ok := act.(map[string]interface{})
		if !ok || len(a) != len(x) {
			if allAbsent(x) && nullish(act) {
				return true
			}
			return false
		}
		for k, v := range x {
			av, ok := a[k]
			if !ok || !MatchVal(v, av) {
				return false
			}
		}
		return true
	}
	if act == nil {
		return false
	}
	switch act.(type) {
	case []interface{}, map[string]interface{}:
		return false
	}
	return Canon(exp) == Canon(act)
}

func allAbsent(v interface{}) bool {
	switch x := v.(type) {
	case absentT:
		return true
	case []interface{}:
		for _, e := range x {
			if !allAbsent(e) {
				return false
			}
		}
		return len(x) > 0
	case map[string]interface{}:
		for _, e := range x {
			if !allAbsent(e) {
				return false
			}
		}
		return len(x) > 0
	}
	return false
}

// Show renders a value (with Absent markers) for messages.
func Show(v interface{}) string {
	switch x := v.(type) {
	case absentT:
		return "<absent>"
	case []interface{}:
		parts := make([]string, len(x))
		for i := range x {
			parts[i] = Show(x[i])
		}
		return "[" + strings.Join(parts, ",") + "]"
	case map[string]interface{}:
		var parts []string
		for _, k := range sortedKeys(x) {
			parts = append(parts, fmt.Sprintf("%q:%s", k, Show(x[k])))
		}
		return "{" + strings.Join(parts, ",") + "}"
	}
	return Canon(v)
}

func naturalLess(a, b string) bool {
	// compares strings with embedded numbers numerically
	i, j := 0, 0
	for i < len(a) && j < len(b) {
		if isDigit(a[i]) && isDigit(b[j]) {
			si := i
			for i < len(a) && isDigit(a[i]) {
				i++
			}
			sj := j
			for j < len(b) && isDigit(b[j]) {
				j++
			}
			na, nb := strings.TrimLeft(a[si:i], "0"), strings.TrimLeft(b[sj:j], "0")
			if len(na) != len(nb) {
				return len(na) < len(nb)
			}
			if na != nb {
				return na < nb
			}
			continue
		}
		if a[i] != b[j] {
			return a[i] < b[j]
		}
		i++
		j++
	}
	return len(a)-i < len(b)-j
}

func isDigit(c byte) bool { return c >= '0' && c <= '9' }

// BuildGroups groups job records by node and fork directory.
func BuildGroups(jobs []*JobRec) map[string][]*ForkGroup {
	idx := map[string]*ForkGroup{}
	out := map[string][]*ForkGroup{}
	for _, j := range jobs {
		k := j.Node + "\x00" + j.Fork
		g := idx[k]
		if g == nil {
			g = &ForkGroup{Node: j.Node, Fork: j.Fork}
			idx[k] = g
			out[j.Node] = append(out[j.Node], g)
		}
		g.Jobs = append(g.Jobs, j)
	}
	for _, gs := range out {
		sort.SliceStable(gs, func(a, b int) bool { return naturalLess(gs[a].Fork, gs[b].Fork) })
	}
	return out
}

func firstPhase(st *StageDef) string {
	if st.Split {
		return "split"
	}
	return "main"
}

func (g *ForkGroup) byPhase(phase string) []*JobRec {
	var out []*JobRec
	for _, j := range g.Jobs {
		if j.Phase == phase {
			out = append(out, j)
		}
	}
	return out
}

func jobArgs(j *JobRec) map[string]interface{} {
	m, _ := j.Args.(map[string]interface{})
	return stripDunder(m)
}

// match finds the fork group that ran this instance, checks the structure of
// the fork (C01 chunk/join arguments) and takes its outputs.
func (e *Eval) match(inst *Inst) {
	st := inst.Stage
	var cands []*ForkGroup
	for _, g := range e.Groups[inst.Node] {
		if g.Claimed != nil {
			continue
		}
		first := g.byPhase(firstPhase(st))
		if len(first) == 0 {
			continue
		}
		ok := true
		for _, j := range first {
			if j.Args == nil {
				// the job never got to read its arguments (killed early): compatible
				continue
			}
			if !MatchVal(interface{}(inst.Args), interface{}(jobArgs(j))) {
				ok = false
			}
		}
		if ok {
			cands = append(cands, g)
		}
	}
	if len(cands) == 0 {
		// A call inside a mapped pipeline whose arguments do not depend on the
		// mapped element may be executed once and shared by the forks of the
		// enclosing call (martian does this); an instance with the same node and
		// the same arguments as an already matched one shares its execution.
		for _, g := range e.Groups[inst.Node] {
			if g.Claimed != nil && MatchVal(interface{}(inst.Args), interface{}(g.Claimed.Args)) &&
				MatchVal(interface{}(g.Claimed.Args), interface{}(inst.Args)) {
				inst.Group = g
				inst.Outs = g.Claimed.Outs
				inst.DoneSeq = g.Claimed.DoneSeq
				inst.Shared = true
				e.NShared++
				return
			}
		}
		// diagnose
		var seen []string
		for _, g := range e.Groups[inst.Node] {
			if g.Claimed == nil {
				for _, j := range g.byPhase(firstPhase(st)) {
					seen = append(seen, fmt.Sprintf("%s:%s", g.Fork, Show(interface{}(jobArgs(j)))))
				}
			}
		}
		if len(seen) == 0 {
			e.problem("C03", "instance-not-executed", "no job ran for enabled instance %s (node %s) expected args %s",
				inst.Index, inst.Node, Show(interface{}(inst.Args)))
		} else {
			e.problem("C01", "args-mismatch", "instance %s (node %s): expected args %s; unclaimed jobs of that node received: %s",
				inst.Index, inst.Node, Show(interface{}(inst.Args)), strings.Join(seen, " | "))
		}
		e.Incomplete = true
		return
	}
	g := cands[0]
	if len(cands) > 1 {
		// prefer the fork whose directory name carries the instance's key
		picked := false
		if inst.MapKey != "" {
			for _, c := range cands {
				if forkDirMatchesKey(c.Fork, inst.MapKey, inst.MapKind) {
					g, picked = c, true
					break
				}
			}
		}
		if !picked {
			inst.Ambig = true
			e.Ambiguous++
		}
	}
	g.Claimed = inst
	inst.Group = g
	e.checkFork(inst, g)
}

func forkDirMatchesKey(fork, key string, kind byte) bool {
	last := fork
	if i := strings.LastIndex(fork, "/"); i >= 0 {
		last = fork[i+1:]
	}
	if kind == 'a' {
		return last == "fork"+key
	}
	return last == "fork_"+key
}

// lastComplete returns the last job of the list that completed.
func lastComplete(js []*JobRec) *JobRec {
	var out *JobRec
	for _, j := range js {
		if j.Outcome == "complete" {
			out = j
		}
	}
	return out
}

func (e *Eval) checkFork(inst *Inst, g *ForkGroup) {
	st := inst.Stage
	if !st.Split {
		j := lastComplete(g.byPhase("main"))
		if j == nil {
			e.Incomplete = true
			return
		}
		inst.Outs, _ = j.Outs.(map[string]interface{})
		inst.DoneSeq = j.EndSeq
		return
	}
	sp := lastComplete(g.byPhase("split"))
	if sp == nil {
		e.Incomplete = true
		return
	}
	sd, _ := sp.Outs.(map[string]interface{})
	defsRaw, _ := sd["chunks"].([]map[string]interface{})
	nchunks := len(defsRaw)
	// chunk jobs
	byChunk := map[int][]*JobRec{}
	for _, j := range g.byPhase("main") {
		byChunk[j.Chunk] = append(byChunk[j.Chunk], j)
	}
	var chunkOuts []interface{}
	for i := 0; i < nchunks; i++ {
		js := byChunk[i]
		if len(js) == 0 {
			e.problem("C03", "chunk-not-executed", "instance %s: chunk %d of %d defined by split never ran", inst.Index, i, nchunks)
			e.Incomplete = true
			return
		}
		want := map[string]interface{}{}
		for k, v := range inst.Args {
			want[k] = v
		}
		for k, v := range stripDunder(defsRaw[i]) {
			want[k] = v
		}
		for _, j := range js {
			if j.Args != nil && !MatchVal(interface{}(want), interface{}(jobArgs(j))) {
				e.problem("C01", "chunk-args", "instance %s chunk %d: expected args %s got %s",
					inst.Index, i, Show(interface{}(want)), Show(interface{}(jobArgs(j))))
			}
		}
		c := lastComplete(js)
		if c == nil {
			e.Incomplete = true
			return
		}
		chunkOuts = append(chunkOuts, c.Outs)
	}
	for ci := range byChunk {
		if ci >= nchunks || ci < 0 {
			e.problem("C03", "extra-chunk", "instance %s: chunk %d ran but split defined %d chunks", inst.Index, ci, nchunks)
		}
	}
	joins := g.byPhase("join")
	jn := lastComplete(joins)
	if jn == nil {
		if len(joins) == 0 {
			e.problem("C03", "join-not-executed", "instance %s: join never ran", inst.Index)
		}
		e.Incomplete = true
		return
	}
	for _, j := range joins {
		if j.Args == nil {
			continue
		}
		if !MatchVal(interface{}(inst.Args), interface{}(jobArgs(j))) {
			e.problem("C01", "join-args", "instance %s join: expected args %s got %s",
				inst.Index, Show(interface{}(inst.Args)), Show(interface{}(jobArgs(j))))
		}
		// chunk defs and chunk outs, complete and in order
		wantDefs := make([]interface{}, nchunks)
		for i := range wantDefs {
			wantDefs[i] = interface{}(stripDunder(defsRaw[i]))
		}
		if !MatchVal(interface{}(wantDefs), stripDunderList(j.ChunkDefs)) {
			e.problem("C01", "join-chunk-defs", "instance %s join: expected chunk defs %s got %s",
				inst.Index, Show(interface{}(wantDefs)), Show(stripDunderList(j.ChunkDefs)))
		}
		if !MatchVal(interface{}(chunkOuts), j.ChunkOuts) {
			e.problem("C01", "join-chunk-outs", "instance %s join: expected chunk outs %s got %s",
				inst.Index, Show(interface{}(chunkOuts)), Show(j.ChunkOuts))
		}
	}
	inst.Outs, _ = jn.Outs.(map[string]interface{})
	inst.DoneSeq = jn.EndSeq
}

// Evaluate runs the model against the recorded jobs and returns the expected
// top-level outputs.
func Evaluate(p *Prog, jobs []*JobRec) (*Eval, *TV) {
	e := &Eval{P: p, Groups: BuildGroups(jobs)}
	top := e.P.Pipeline(p.Top.Callee)
	args := map[string]*TV{}
	for i, b := range p.Top.Binds {
		args[b.Param] = e.convert(fromPlain(Plain(b.E.Val), b.E.T, nil), top.Ins[i].T)
	}
	sc := &scope{path: "", index: "", calls: map[string]*TV{}}
	if p.Top.Mapped {
		// a map-called top-level pipeline: one instance per element of the literal
		// collection(s); the result is a collection of the pipeline's outputs
		return e, e.evalCall(p.Top, sc)
	}
	res := e.evalCallable(p.Top, args, sc, "", "", 0, nil)
	return e, res
}
