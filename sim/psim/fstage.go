package psim

import (
	"bytes"
	"encoding/json"
	"fmt"
	"hash/fnv"
	"math"
	"net/url"
	"sort"
	"strconv"
	"strings"
)

// ---------------------------------------------------------------------------
// JSON values.  Values are: nil, bool, json.Number-free numbers (int64 or
// float64), string, []interface{}, map[string]interface{}.
// ---------------------------------------------------------------------------

// Canon returns a canonical text for a value: object keys sorted, numbers
// normalised (integral floats print as integers), no whitespace.
func Canon(v interface{}) string {
	var b strings.Builder
	canon(&b, v)
	return b.String()
}

func canon(b *strings.Builder, v interface{}) {
	switch x := v.(type) {
	case nil:
		b.WriteString("null")
	case bool:
		b.WriteString(strconv.FormatBool(x))
	case int:
		b.WriteString(strconv.Itoa(x))
	case int64:
		b.WriteString(strconv.FormatInt(x, 10))
	case float64:
		if x == math.Trunc(x) && math.Abs(x) < 1e15 {
			b.WriteString(strconv.FormatInt(int64(x), 10))
		} else {
			b.WriteString(strconv.FormatFloat(x, 'g', -1, 64))
		}
	case json.Number:
		if i, err := x.Int64(); err == nil {
			b.WriteString(strconv.FormatInt(i, 10))
		} else if f, err := x.Float64(); err == nil {
			canon(b, f)
		} else {
			b.WriteString(x.String())
		}
	case string:
		q, _ := json.Marshal(x)
		b.Write(q)
	case []interface{}:
		b.WriteByte('[')
		for i, e := range x {
			if i > 0 {
				b.WriteByte(',')
			}
			canon(b, e)
		}
		b.WriteByte(']')
	case map[string]interface{}:
		keys := make([]string, 0, len(x))
		for k := range x {
			keys = append(keys, k)
		}
		sort.Strings(keys)
		b.WriteByte('{')
		for i, k := range keys {
			if i > 0 {
				b.WriteByte(',')
			}
			q, _ := json.Marshal(k)
			b.Write(q)
			b.WriteByte(':')
			canon(b, x[k])
		}
		b.WriteByte('}')
	case *OMap:
		m := map[string]interface{}{}
		for k, e := range x.Vals {
			m[k] = e
		}
		canon(b, m)
	default:
		panic(fmt.Sprintf("canon: unsupported %T", v))
	}
}

// ParseJSON decodes JSON into the value model (numbers as int64 when integral).
func ParseJSON(data []byte) (interface{}, error) {
	dec := json.NewDecoder(bytes.NewReader(data))
	dec.UseNumber()
	var v interface{}
	if err := dec.Decode(&v); err != nil {
		return nil, err
	}
	return normNumbers(v), nil
}

func normNumbers(v interface{}) interface{} {
	switch x := v.(type) {
	case json.Number:
		if i, err := x.Int64(); err == nil {
			return i
		}
		f, _ := x.Float64()
		return f
	case []interface{}:
		for i := range x {
			x[i] = normNumbers(x[i])
		}
		return x
	case map[string]interface{}:
		for k := range x {
			x[k] = normNumbers(x[k])
		}
		return x
	}
	return v
}

// Plain converts literal values (which may hold *OMap) into plain values.
func Plain(v interface{}) interface{} {
	switch x := v.(type) {
	case *OMap:
		m := make(map[string]interface{}, len(x.Keys))
		for _, k := range x.Keys {
			m[k] = Plain(x.Vals[k])
		}
		return m
	case []interface{}:
		out := make([]interface{}, len(x))
		for i := range x {
			out[i] = Plain(x[i])
		}
		return out
	case int:
		return int64(x)
	}
	return v
}

func hash64(parts ...string) uint64 {
	h := fnv.New64a()
	for _, p := range parts {
		h.Write([]byte(p))
		h.Write([]byte{0})
	}
	return h.Sum64()
}

// ---------------------------------------------------------------------------
// The stage function F.  The behaviour of every stage is a pure function of
// (stage name, phase, canonical arguments); it is shared by the job stub (which
// executes it) and by the reference evaluator (which predicts it).  Values are
// generated for the declared output types; sizes of collections come from the
// hash so that downstream map calls get run-time-determined fork counts.
// ---------------------------------------------------------------------------

type FCfg struct {
	BigInts bool // some integers are beyond 2^53
	MaxLen   int  // maximal generated collection size
	AllowNil bool // outputs may be null
	PathStrings bool // string and untyped-map outputs may hold the path of a file the stage wrote
	Salt     string
	// MaxChunks bounds the number of chunks a split returns.
	MaxChunks int
	// KeyAlphabet, if set, provides adversarial typed-map keys.
	KeyAlphabet []string
}

// FileMaker materialises a file-typed output: it is given the logical name and
// content, writes the file and returns the path to put into the outs.  The
// evaluator uses a FileMaker that returns a symbolic token instead.
type FileMaker func(name string, content string) string

type genCtx struct {
	p     *Prog
	cfg   *FCfg
	files FileMaker
	seed  string
	n     int
}

func (g *genCtx) h(tag string) uint64 {
	g.n++
	return hash64(g.seed, tag, strconv.Itoa(g.n))
}

func (g *genCtx) value(t Ty, path string) interface{} {
	if t.Dims != "" {
		h := g.h(path + "|len")
		if g.cfg.AllowNil && h%11 == 0 {
			return nil
		}
		n := int((h / 16) % uint64(g.cfg.MaxLen+1))
		if t.Dims[0] == 'a' {
			out := make([]interface{}, n)
			for i := 0; i < n; i++ {
				out[i] = g.value(t.Elem(), path+"["+strconv.Itoa(i)+"]")
			}
			return out
		}
		m := make(map[string]interface{}, n)
		for i := 0; i < n; i++ {
			k := "k" + strconv.Itoa(i)
			if len(g.cfg.KeyAlphabet) > 0 {
				k = g.cfg.KeyAlphabet[int(g.h(path+"|key")%uint64(len(g.cfg.KeyAlphabet)))]
				if _, dup := m[k]; dup {
					k = k + strconv.Itoa(i)
				}
			}
			m[k] = g.value(t.Elem(), path+"{"+k+"}")
		}
		if len(g.cfg.KeyAlphabet) > 0 && n > 0 && g.h(path+"|twin")%4 == 0 {
			// a key and its percent-encoded lookalike
			ks := make([]string, 0, len(m))
			for k := range m {
				ks = append(ks, k)
			}
			sort.Strings(ks)
			k := ks[int(g.h(path+"|twinkey")%uint64(len(ks)))]
			if tw := url.PathEscape(k); tw != k {
				if _, dup := m[tw]; !dup {
					m[tw] = g.value(t.Elem(), path+"{"+tw+"}")
				}
			}
		}
		if len(g.cfg.KeyAlphabet) > 0 && n > 0 && g.h(path+"|suffixtwin")%4 == 0 {
			// a key which ends in "_" + another key (fork names are joined with
			// underscores), sorting before or after it
			ks := make([]string, 0, len(m))
			for k := range m {
				ks = append(ks, k)
			}
			sort.Strings(ks)
			k := ks[int(g.h(path+"|suffixkey")%uint64(len(ks)))]
			tw := []string{"0_", "z_", "A_", "a_b_"}[int(g.h(path+"|suffixpre")%4)] + k
			if _, dup := m[tw]; !dup {
				m[tw] = g.value(t.Elem(), path+"{"+tw+"}")
			}
		}
		return m
	}
	h := g.h(path)
	switch t.Base {
	case "int":
		if g.cfg.BigInts && h%8 == 3 {
			// integers which no float64 holds exactly
			v := int64(9007199254740993) + int64(h%997)*2
			if h%16 == 11 {
				v = -v
			}
			if h%32 == 3 {
				v = 4611686018427387905 + int64(h%97)
			}
			return v
		}
		return int64(h % 1000)
	case "float":
		return float64(h%1000) + 0.5
	case "string":
		if g.cfg.PathStrings && g.files != nil && h%3 == 1 {
			// a string which is the path of a file the stage wrote (strings and
			// untyped maps "may contain paths": VDR has to honour them too)
			return g.files(path+"_viastring", fmt.Sprintf("%s|%s|%x|str", g.seed, path, h))
		}
		return fmt.Sprintf("s%x", h%0xffffff)
	case "bool":
		return h%3 == 0
	case "map":
		if g.cfg.PathStrings && g.files != nil && h%3 == 2 {
			return map[string]interface{}{"u": int64(h % 100), "p": g.files(path+"_viamap", fmt.Sprintf("%s|%s|%x|map", g.seed, path, h))}
		}
		return map[string]interface{}{"u": int64(h % 100)}
	}
	if g.p.IsFileType(t.Base) {
		if g.cfg.AllowNil && ((h%4 == 1 && strings.ContainsAny(path, "[{")) || h%7 == 2) {
			// a missing file in a collection of files (real files follow it)
			return nil
		}
		name := path
		content := fmt.Sprintf("%s|%s|%x", g.seed, path, h)
		return g.files(name, content)
	}
	if s := g.p.Struct(t.Base); s != nil {
		if g.cfg.AllowNil && h%4 == 0 && strings.ContainsAny(path, "[{") {
			// a null element in a collection of structs
			return nil
		}
		m := make(map[string]interface{}, len(s.Fields))
		for _, f := range s.Fields {
			m[f.Name] = g.value(f.T, path+"."+f.Name)
		}
		return m
	}
	panic("F: unknown type " + t.Base)
}

// FOuts computes the outputs for the given output parameter list.
func FOuts(p *Prog, cfg *FCfg, stage, phase string, args interface{}, outs []Field, files FileMaker) map[string]interface{} {
	g := &genCtx{p: p, cfg: cfg, files: files,
		seed: fmt.Sprintf("%s|%s|%s|%x", cfg.Salt, stage, phase, hash64(Canon(args)))}
	res := make(map[string]interface{}, len(outs))
	for _, f := range outs {
		if p.NullOuts[stage+"."+f.Name] {
			res[f.Name] = nil
			continue
		}
		res[f.Name] = g.value(f.T, f.Name)
	}
	return res
}

// FSplit computes the chunk definitions returned by the split phase.
func FSplit(p *Prog, cfg *FCfg, st *StageDef, args interface{}, files FileMaker) []map[string]interface{} {
	seed := fmt.Sprintf("%s|%s|split|%x", cfg.Salt, st.Name, hash64(Canon(args)))
	n := int(hash64(seed, "n") % uint64(cfg.MaxChunks+1))
	chunks := make([]map[string]interface{}, n)
	for i := 0; i < n; i++ {
		g := &genCtx{p: p, cfg: &FCfg{MaxLen: cfg.MaxLen, Salt: cfg.Salt, BigInts: cfg.BigInts}, seed: seed + "|" + strconv.Itoa(i),
			files: func(name, content string) string { return files(fmt.Sprintf("chunk%d_%s", i, name), content) }}
		c := make(map[string]interface{}, len(st.ChunkIns))
		for _, f := range st.ChunkIns {
			c[f.Name] = g.value(f.T, f.Name)
		}
		chunks[i] = c
	}
	return chunks
}
