package psim

import (
	"fmt"
	"net/url"
	"strings"
)

// ---------------------------------------------------------------------------
// Type-directed generator of compiling MRO programs (as Prog models).
// Every random choice is drawn from the plan tape.
// ---------------------------------------------------------------------------

type GenCfg struct {
	MaxStages              int
	MaxPipelines           int
	MaxCalls               int // per pipeline
	MaxParams              int
	MaxLit                 int // maximal literal collection size
	Structs                bool
	TypedMaps              bool
	Files                  bool // file-typed outputs (for the VDR profiles)
	Splits                 bool
	MapCalls               bool
	Disabled               bool
	Preflight              bool
	Local                  bool
	Resources              bool
	ManyFileTypes bool // eight user file types instead of two
	ChunkFiles bool // splits give their chunks files
	VMem bool // stages also ask for virtual address space
	Volatile               bool
	Retain                 bool
	MapBias                bool     // prefer typed-map map calls
	RetainDup              bool     // retain lists with several, partly repeated, entries
	NestedMaps             bool     // allow map calls inside map-called pipelines (see DESIGN.md: known findings)
	NestedArrayMaps        bool     // allow them when every inner map call is over an array (works; D1 concerns keyed inner calls)
	DisabledMappedPipeline bool     // allow a disabled modifier on a map call of a pipeline
	InvariantInMapped      bool     // allow calls that do not depend on the mapped element inside map-called pipelines
	SplitDisabledOut       bool     // allow "split X.out" where call X has a disabled modifier
	ExecStages             bool     // some stages run without the monitor
	AdvKeys                []string // adversarial typed-map keys
}

type avail struct {
	e *Expr
	t Ty
}

type gen struct {
	t    *Tape
	cfg  *GenCfg
	p    *Prog
	n    int
	prim []string
	// types that appear as stage outputs, to bias inputs towards connectable types
	outTypes []Ty
	// pipelines that contain a map call, directly or through sub-pipelines
	hasMap      map[string]bool
	hasKeyedMap map[string]bool // pipeline (transitively) contains a map call over a typed map
	// mapPipes[p]: the pipelines, reachable from pipeline p (p included), which
	// directly contain a map call
	mapPipes      map[string]map[string]bool
	disabledCalls map[string]bool
	pfStage       *StageDef
}

func (g *gen) name(prefix string) string {
	g.n++
	return fmt.Sprintf("%s%d", prefix, g.n)
}

func (g *gen) pick(n int) int { return g.t.Draw(n) }

// Generate builds a random program.
func Generate(t *Tape, cfg *GenCfg) *Prog {
	g := &gen{t: t, cfg: cfg, p: &Prog{}, hasMap: map[string]bool{}, hasKeyedMap: map[string]bool{}, mapPipes: map[string]map[string]bool{}}
	g.prim = []string{"int", "string", "float", "bool"}
	if cfg.Files {
		g.p.FileTypes = []string{"txt", "json"}
		if cfg.ManyFileTypes {
			g.p.FileTypes = []string{"txt", "json", "bam", "csv", "h5", "bed", "vcf", "fastq"}
		}
	}
	if cfg.Structs {
		ns := 1 + g.pick(3)
		for i := 0; i < ns; i++ {
			g.genStruct()
		}
	}
	nst := 2 + g.pick(cfg.MaxStages-1)
	for i := 0; i < nst; i++ {
		g.genStage()
	}
	npl := 1 + g.pick(cfg.MaxPipelines)
	for i := 0; i < npl; i++ {
		g.genPipeline(i == npl-1)
	}
	g.genTop()
	return g.p
}

func (g *gen) primType() Ty {
	return Ty{Base: g.prim[g.pick(len(g.prim))]}
}

// randType returns a random data type (no files).
func (g *gen) randType(depth int) Ty {
	var t Ty
	if g.cfg.Structs && len(g.p.Structs) > 0 && g.pick(4) == 0 {
		t = Ty{Base: g.p.Structs[g.pick(len(g.p.Structs))].Name}
	} else {
		t = g.primType()
	}
	switch g.pick(6) {
	case 0, 1:
		t = t.ArrayOf()
		if g.pick(5) == 0 {
			t = t.ArrayOf()
		}
	case 2:
		if g.cfg.TypedMaps {
			t = t.MapOf()
		}
	}
	return t
}

func (g *gen) genStruct() {
	s := &StructDef{Name: g.name("S")}
	nf := 2 + g.pick(3)
	for i := 0; i < nf; i++ {
		var ft Ty
		if len(g.p.Structs) > 0 && g.pick(4) == 0 {
			ft = Ty{Base: g.p.Structs[g.pick(len(g.p.Structs))].Name}
			if g.pick(2) == 0 {
				ft = ft.ArrayOf()
			}
		} else {
			ft = g.primType()
			if g.pick(3) == 0 {
				ft = ft.ArrayOf()
			}
		}
		s.Fields = append(s.Fields, Field{fmt.Sprintf("f%d", i), ft})
	}
	g.p.Structs = append(g.p.Structs, s)
	// sometimes add a wider twin (superset of fields) so that narrowing happens
	if g.pick(2) == 0 {
		w := &StructDef{Name: g.name("S")}
		w.Fields = append(w.Fields, s.Fields...)
		w.Fields = append(w.Fields, Field{fmt.Sprintf("x%d", len(s.Fields)), g.primType()})
		g.p.Structs = append(g.p.Structs, w)
	}
}

func (g *gen) genStage() {
	s := &StageDef{Name: g.name("ST"), SrcKind: "comp"}
	if g.cfg.ExecStages && g.pick(4) == 0 {
		s.SrcKind = "exec"
	}
	nin := 1 + g.pick(g.cfg.MaxParams)
	for i := 0; i < nin; i++ {
		var t Ty
		var fileOuts []Ty
		if g.cfg.Files {
			for _, ot := range g.outTypes {
				if g.p.IsFileType(ot.Base) {
					fileOuts = append(fileOuts, ot)
				}
			}
		}
		if len(fileOuts) > 0 && g.pick(3) == 0 {
			// consume a file produced upstream (keeps it alive for VDR)
			t = fileOuts[g.pick(len(fileOuts))]
			if t.Dims != "" && g.pick(2) == 0 {
				t = t.Elem()
			}
		} else if len(g.outTypes) > 0 && g.pick(3) > 0 {
			t = g.outTypes[g.pick(len(g.outTypes))]
			// consume an element of an upstream collection (enables map calls)
			if t.Dims != "" && g.pick(2) == 0 {
				t = t.Elem()
			}
		} else {
			t = g.randType(0)
		}
		if g.p.IsFileType(t.Base) && !g.cfg.Files {
			t = g.primType()
		}
		s.Ins = append(s.Ins, Field{fmt.Sprintf("i%d", i), t})
	}
	nout := 1 + g.pick(g.cfg.MaxParams)
	for i := 0; i < nout; i++ {
		t := g.randType(0)
		if g.cfg.Files && g.pick(3) == 0 {
			t = Ty{Base: g.p.FileTypes[g.pick(len(g.p.FileTypes))]}
			if g.pick(3) == 0 {
				t = t.ArrayOf()
			}
		}
		if g.cfg.Disabled && i == 0 && g.pick(3) == 0 {
			t = Ty{Base: "bool"}
		}
		s.Outs = append(s.Outs, Field{fmt.Sprintf("o%d", i), t})
		g.outTypes = append(g.outTypes, t)
	}
	if g.cfg.Splits && g.pick(3) == 0 {
		s.Split = true
		s.ChunkIns = []Field{{"c0", Ty{Base: "int"}}}
		if g.pick(2) == 0 {
			s.ChunkIns = append(s.ChunkIns, Field{"c1", Ty{Base: "string"}})
		}
		if g.cfg.ChunkFiles && g.pick(2) == 0 {
			// the split hands each chunk a file of its own (written below the split's
			// own files directory)
			s.ChunkIns = append(s.ChunkIns, Field{"cf", Ty{Base: "file"}})
		}
		s.ChunkOuts = []Field{{"p0", g.primType()}}
	}
	if g.cfg.Resources && g.pick(2) == 0 {
		s.Threads = []float64{1, 2, 0.5, 4, -2, 1.5, 2.5, 3.25, 4.75}[g.pick(9)]
		s.MemGB = []float64{1, 2, 0.5, 6, -1, 1.5, 2.25, 6.5}[g.pick(8)]
		if g.cfg.VMem {
			s.VMemGB = []float64{0, 0, 2, 3.5, -1, 16, 1.5, 0.5}[g.pick(8)]
		}
	}
	if g.cfg.Volatile {
		switch g.pick(4) {
		case 0:
			s.Volatile = "strict"
		case 1:
			s.Volatile = "false"
		}
	}
	if g.cfg.RetainDup && g.cfg.Files {
		// several retained outputs, some named twice (legal MRO)
		for _, o := range s.Outs {
			if g.p.IsFileType(o.T.Base) {
				s.Retain = append(s.Retain, o.Name)
				if g.pick(2) == 0 {
					s.Retain = append(s.Retain, o.Name)
				}
			}
		}
		if len(s.Retain) > 1 && g.pick(2) == 0 {
			s.Retain[0], s.Retain[len(s.Retain)-1] = s.Retain[len(s.Retain)-1], s.Retain[0]
		}
	} else if g.cfg.Retain && g.cfg.Files && g.pick(2) == 0 {
		for _, o := range s.Outs {
			if g.p.IsFileType(o.T.Base) {
				s.Retain = append(s.Retain, o.Name)
				break
			}
		}
	}
	g.p.Stages = append(g.p.Stages, s)
}

// ---------- literals ----------

func (g *gen) litVal(t Ty, depth int, uniq *int) interface{} {
	if t.Dims != "" {
		if g.pick(12) == 0 {
			return nil
		}
		n := g.pick(g.cfg.MaxLit + 1)
		if depth > 1 && n > 2 {
			n = 2
		}
		if t.Dims[0] == 'a' {
			out := make([]interface{}, n)
			for i := range out {
				out[i] = g.litVal(t.Elem(), depth+1, uniq)
			}
			return out
		}
		m := NewOMap()
		for i := 0; i < n; i++ {
			k := fmt.Sprintf("k%d", i)
			if len(g.cfg.AdvKeys) > 0 {
				k = g.cfg.AdvKeys[g.pick(len(g.cfg.AdvKeys))]
				if _, dup := m.Vals[k]; dup {
					k = fmt.Sprintf("%s%d", k, i)
				}
			}
			m.Set(k, g.litVal(t.Elem(), depth+1, uniq))
		}
		return m
	}
	*uniq++
	switch t.Base {
	case "int":
		if g.pick(6) == 0 {
			return -int64(1000 + *uniq*7)
		}
		return int64(1000 + *uniq*7 + g.pick(5))
	case "float":
		switch g.pick(6) {
		case 0:
			return -(float64(*uniq) + 0.25)
		case 1:
			return -0.5 / float64(*uniq+1)
		}
		return float64(*uniq) + 0.25
	case "string":
		return fmt.Sprintf("lit%d", *uniq)
	case "bool":
		return g.pick(2) == 0
	case "map":
		m := NewOMap()
		m.Set("m", int64(*uniq))
		return m
	}
	if g.p.IsFileType(t.Base) {
		return nil
	}
	if s := g.p.Struct(t.Base); s != nil {
		m := NewOMap()
		for _, f := range s.Fields {
			m.Set(f.Name, g.litVal(f.T, depth+1, uniq))
		}
		return m
	}
	panic("litVal: " + t.Base)
}

func (g *gen) lit(t Ty) *Expr {
	return &Expr{Kind: ELit, Val: g.litVal(t, 0, &g.n), T: t}
}

// ---------- assignability (a conservative subset of martian's rules) ----------

func (g *gen) assignable(dst, src Ty) bool {
	if dst.Dims != src.Dims {
		return false
	}
	if dst.Base == src.Base {
		return true
	}
	if dst.Base == "float" && src.Base == "int" {
		return true
	}
	ds, ss := g.p.Struct(dst.Base), g.p.Struct(src.Base)
	if ds != nil && ss != nil {
		for _, f := range ds.Fields {
			ok := false
			for _, sf := range ss.Fields {
				if sf.Name == f.Name && g.assignable(f.T, sf.T) {
					ok = true
				}
			}
			if !ok {
				return false
			}
		}
		return true
	}
	return false
}

func validDims(d string) bool {
	// a* m? a*
	return strings.Count(d, "m") <= 1
}

// expand adds projections of struct-typed values.
func (g *gen) expand(env []avail) []avail {
	out := append([]avail(nil), env...)
	for i := 0; i < len(out) && len(out) < 200; i++ {
		a := out[i]
		s := g.p.Struct(a.t.Base)
		if s == nil || len(a.e.Path) > 3 {
			continue
		}
		if a.e.Kind != ERef {
			continue
		}
		for _, f := range s.Fields {
			d := a.t.Dims + f.T.Dims
			if !validDims(d) {
				continue
			}
			e := &Expr{Kind: ERef, Self: a.e.Self, Call: a.e.Call, Path: append(append([]string{}, a.e.Path...), f.Name)}
			out = append(out, avail{e, Ty{f.T.Base, d}})
		}
	}
	return out
}

// exprFor builds an expression of a type assignable to t from the environment.
func (g *gen) exprFor(t Ty, env []avail, depth int) *Expr {
	var cands []avail
	for _, a := range env {
		if g.assignable(t, a.t) {
			cands = append(cands, a)
		}
	}
	choice := g.pick(10)
	if len(cands) > 0 && choice < 7 {
		return cands[g.pick(len(cands))].e
	}
	if depth < 2 && t.Dims != "" && choice < 9 {
		// collection literal of sub-expressions
		n := 1 + g.pick(2)
		if t.Dims[0] == 'a' {
			e := &Expr{Kind: EArr, T: t}
			for i := 0; i < n; i++ {
				e.Elems = append(e.Elems, g.exprFor(t.Elem(), env, depth+1))
			}
			return e
		}
		e := &Expr{Kind: EMap, T: t}
		for i := 0; i < n; i++ {
			e.Keys = append(e.Keys, fmt.Sprintf("m%d", i))
			e.Elems = append(e.Elems, g.exprFor(t.Elem(), env, depth+1))
		}
		return e
	}
	if s := g.p.Struct(t.Base); s != nil && t.Dims == "" && depth < 2 && choice < 9 {
		e := &Expr{Kind: EStruct, T: t}
		for _, f := range s.Fields {
			e.Keys = append(e.Keys, f.Name)
			e.Elems = append(e.Elems, g.exprFor(f.T, env, depth+1))
		}
		return e
	}
	if len(cands) > 0 && choice < 9 {
		return cands[g.pick(len(cands))].e
	}
	return g.lit(t)
}

// callOutTypes returns the available references a call provides to its siblings.
func (g *gen) callAvail(c *CallDef, mapKind byte) []avail {
	_, outs, _ := g.p.CalleeSig(c.Callee)
	var out []avail
	for _, o := range outs {
		d := o.T.Dims
		if mapKind != 0 {
			d = string(mapKind) + d
		}
		if !validDims(d) {
			continue
		}
		out = append(out, avail{&Expr{Kind: ERef, Call: c.Id, Path: []string{o.Name}}, Ty{o.T.Base, d}})
	}
	return out
}

func (g *gen) genPipeline(last bool) {
	pl := &PipelineDef{Name: g.name("PL")}
	nin := 1 + g.pick(g.cfg.MaxParams)
	var env []avail
	for i := 0; i < nin; i++ {
		var t Ty
		if i == 0 && g.cfg.Disabled && g.pick(2) == 0 {
			t = Ty{Base: "bool"}
		} else if len(g.outTypes) > 0 && g.pick(2) == 0 {
			t = g.outTypes[g.pick(len(g.outTypes))]
			if g.p.IsFileType(t.Base) {
				t = g.randType(0)
			}
		} else {
			t = g.randType(0)
		}
		f := Field{fmt.Sprintf("a%d", i), t}
		pl.Ins = append(pl.Ins, f)
		env = append(env, avail{&Expr{Kind: ERef, Self: true, Path: []string{f.Name}}, t})
	}
	ncalls := 1 + g.pick(g.cfg.MaxCalls)
	used := map[string]int{}
	if g.cfg.Preflight && g.pick(3) == 0 {
		// a preflight stage: no outputs, bound to pipeline inputs or literals only;
		// every other call of this pipeline (and of its sub-pipelines) waits for it
		if g.pfStage == nil {
			g.pfStage = &StageDef{Name: g.name("PFST"), SrcKind: "comp",
				Ins: []Field{{"p0", Ty{Base: "int"}}, {"p1", Ty{Base: "string"}}}}
			g.p.Stages = append(g.p.Stages, g.pfStage)
		}
		c := &CallDef{Callee: g.pfStage.Name, Id: g.pfStage.Name, Preflight: true, Local: g.pick(2) == 0}
		for _, p := range g.pfStage.Ins {
			var e *Expr
			for _, a := range env {
				if a.t == p.T && g.pick(2) == 0 {
					e = a.e
				}
			}
			if e == nil {
				e = g.lit(p.T)
			}
			c.Binds = append(c.Binds, Bind{p.Name, e, false})
		}
		used[c.Callee]++
		pl.Calls = append(pl.Calls, c)
	}
	disabledCalls := map[string]bool{}
	g.disabledCalls = disabledCalls
	taint := map[string]map[string]bool{}
	myMapPipes := map[string]bool{}
	havePreflight := false
	for i := 0; i < ncalls; i++ {
		// callee: a stage, or an earlier pipeline
		var callee string
		if len(g.p.Pipelines) > 0 && g.pick(3) == 0 {
			callee = g.p.Pipelines[g.pick(len(g.p.Pipelines))].Name
		} else {
			callee = g.p.Stages[g.pick(len(g.p.Stages))].Name
			if g.pfStage != nil && callee == g.pfStage.Name {
				callee = g.p.Stages[0].Name
			}
		}
		ins, _, isStage := g.p.CalleeSig(callee)
		c := &CallDef{Callee: callee, Id: callee}
		if used[callee] > 0 {
			c.Id = fmt.Sprintf("%s_%d", callee, used[callee])
		}
		used[callee]++
		xenv := g.expand(env)
		if mp := g.mapPipes[callee]; len(mp) > 0 {
			// Martian identifies the forks of a map call by its call statement,
			// which two instances of the same pipeline share: an instance whose
			// arguments come from the forked outputs of another instance fails
			// with "inconsistent index" (observed; DESIGN.md section 14, D5).
			// Not generated: no argument of this call refers to a sibling call
			// that shares a map-calling pipeline with the callee.
			var f []avail
			for _, a := range xenv {
				if a.e.Kind == ERef && !a.e.Self && intersects(taint[a.e.Call], mp) {
					continue
				}
				f = append(f, a)
			}
			xenv = f
		}
		var mapKind byte
		if g.cfg.MapCalls && g.pick(3) == 0 && (g.cfg.NestedMaps || !g.hasMap[callee] || (g.cfg.NestedArrayMaps && !g.hasKeyedMap[callee])) {
			// try to make it a map call: pick parameters to split
			kind := byte('a')
			if g.cfg.TypedMaps && (g.pick(3) == 0 || (g.cfg.MapBias && g.pick(3) > 0)) {
				kind = 'm'
				// A callee with typed-map outputs mapped over a typed map would give
				// map<map<..>>: martian accepts the program but panics when it
				// serialises the final state (observed; see DESIGN.md, findings
				// outside the claimed properties).  Not generated.
				_, couts, _ := g.p.CalleeSig(callee)
				for _, o := range couts {
					if strings.Contains(o.T.Dims, "m") {
						kind = 'a'
					}
				}
			}
			var splitIdx []int
			for pi, p := range ins {
				d := string(kind) + p.T.Dims
				if validDims(d) && (len(splitIdx) == 0 || g.pick(3) == 0) {
					splitIdx = append(splitIdx, pi)
				}
			}
			if len(splitIdx) > 2 {
				splitIdx = splitIdx[:2]
			}
			if q := g.p.Pipeline(callee); q != nil && !g.cfg.InvariantInMapped && len(splitIdx) > 0 {
				sp := map[string]bool{}
				for _, pi := range splitIdx {
					sp[ins[pi].Name] = true
				}
				if !g.fullyDependent(q, sp) {
					splitIdx = nil
				}
			}
			if len(splitIdx) > 0 {
				// All split sources must agree in length / key set.  Use one source
				// expression per call unless they are literals of equal shape.
				ok := true
				binds := map[int]*Expr{}
				if len(splitIdx) == 1 {
					pi := splitIdx[0]
					st := Ty{ins[pi].T.Base, string(kind) + ins[pi].T.Dims}
					binds[pi] = g.splitSource(st, xenv)
				} else {
					// two split params: literals with the same shape, or the same
					// reference twice when types agree
					keys := g.litKeys(1 + g.pick(g.cfg.MaxLit))
					for _, pi := range splitIdx {
						st := Ty{ins[pi].T.Base, string(kind) + ins[pi].T.Dims}
						binds[pi] = g.shapedLit(st, keys)
					}
				}
				if ok {
					c.Mapped = true
					mapKind = kind
					for pi, p := range ins {
						if e, isSplit := binds[pi]; isSplit {
							c.Binds = append(c.Binds, Bind{p.Name, e, true})
						} else {
							c.Binds = append(c.Binds, Bind{p.Name, g.exprFor(p.T, xenv, 0), false})
						}
					}
				}
			}
		}
		if !c.Mapped {
			for _, p := range ins {
				c.Binds = append(c.Binds, Bind{p.Name, g.exprFor(p.T, xenv, 0), false})
			}
		}
		if g.cfg.Disabled && g.pick(4) == 0 && !(c.Mapped && !isStage && !g.cfg.DisabledMappedPipeline) {
			var bools []avail
			for _, a := range xenv {
				if a.t.Base == "bool" && a.t.Dims == "" && a.e.Kind == ERef {
					bools = append(bools, a)
				}
			}
			if len(bools) > 0 {
				c.Disabled = bools[g.pick(len(bools))].e
			}
		}
		if isStage {
			if g.cfg.Local && g.pick(5) == 0 {
				c.Local = true
			}
			if g.cfg.Volatile && g.pick(3) == 0 {
				c.Volatile = true
			}
		}
		pl.Calls = append(pl.Calls, c)
		if c.Mapped || g.hasMap[callee] {
			g.hasMap[pl.Name] = true
		}
		if (c.Mapped && mapKind == 'm') || g.hasKeyedMap[callee] {
			g.hasKeyedMap[pl.Name] = true
		}
		if c.Mapped {
			myMapPipes[pl.Name] = true
		}
		if !isStage {
			// values can pass through a pipeline call unchanged; a stage cuts
			// the chain
			tc := map[string]bool{}
			for k := range g.mapPipes[callee] {
				tc[k] = true
				myMapPipes[k] = true
			}
			var walkT func(e *Expr)
			walkT = func(e *Expr) {
				if e == nil {
					return
				}
				if e.Kind == ERef && !e.Self {
					for k := range taint[e.Call] {
						tc[k] = true
					}
				}
				for _, x := range e.Elems {
					walkT(x)
				}
			}
			for _, b := range c.Binds {
				walkT(b.E)
			}
			taint[c.Id] = tc
		}
		if c.Disabled != nil {
			disabledCalls[c.Id] = true
		}
		env = append(env, g.callAvail(c, mapKind)...)
		_ = havePreflight
	}
	// the preflight call need not be written first in the pipeline body
	if len(pl.Calls) > 1 && pl.Calls[0].Preflight && g.pick(3) > 0 {
		k := 1 + g.pick(len(pl.Calls)-1)
		pf := pl.Calls[0]
		copy(pl.Calls[0:k], pl.Calls[1:k+1])
		pl.Calls[k] = pf
	}
	// returns
	xenv := g.expand(env)
	nout := 1 + g.pick(g.cfg.MaxParams)
	for i := 0; i < nout; i++ {
		// prefer call outputs
		var refs []avail
		for _, a := range xenv {
			if !a.e.Self || g.pick(4) == 0 {
				refs = append(refs, a)
			}
		}
		var e *Expr
		var t Ty
		if len(refs) > 0 && g.pick(8) > 0 {
			a := refs[g.pick(len(refs))]
			e, t = a.e, a.t
		} else {
			t = g.randType(0)
			e = g.exprFor(t, xenv, 0)
		}
		name := fmt.Sprintf("r%d", i)
		pl.Outs = append(pl.Outs, Field{name, t})
		pl.Ret = append(pl.Ret, Bind{name, e, false})
	}
	// pipeline-level retain of file outputs of stage calls
	if g.cfg.Retain && g.cfg.Files {
		for _, c := range pl.Calls {
			st := g.p.Stage(c.Callee)
			if st == nil || g.pick(3) != 0 {
				continue
			}
			for _, o := range st.Outs {
				if g.p.IsFileType(o.T.Base) {
					pl.Retain = append(pl.Retain, &Expr{Kind: ERef, Call: c.Id, Path: []string{o.Name}})
					if !g.cfg.RetainDup {
						break
					}
					// several outputs of one call, some named twice (legal MRO)
					if g.pick(2) == 0 {
						pl.Retain = append(pl.Retain, &Expr{Kind: ERef, Call: c.Id, Path: []string{o.Name}})
					}
				}
			}
		}
		if g.cfg.RetainDup && len(pl.Retain) > 1 && g.pick(2) == 0 {
			pl.Retain[0], pl.Retain[len(pl.Retain)-1] = pl.Retain[len(pl.Retain)-1], pl.Retain[0]
		}
	}
	// MRO rejects pipeline inputs that nothing uses.
	usedIns := map[string]bool{}
	var walk func(e *Expr)
	walk = func(e *Expr) {
		if e == nil {
			return
		}
		if e.Kind == ERef && e.Self {
			usedIns[e.Path[0]] = true
		}
		for _, x := range e.Elems {
			walk(x)
		}
	}
	for _, c := range pl.Calls {
		for _, b := range c.Binds {
			walk(b.E)
		}
		walk(c.Disabled)
	}
	for _, b := range pl.Ret {
		walk(b.E)
	}
	var kept []Field
	for _, f := range pl.Ins {
		if usedIns[f.Name] {
			kept = append(kept, f)
		}
	}
	pl.Ins = kept
	g.mapPipes[pl.Name] = myMapPipes
	g.p.Pipelines = append(g.p.Pipelines, pl)
}

func intersects(a, b map[string]bool) bool {
	for k := range a {
		if b[k] {
			return true
		}
	}
	return false
}

// exprDepends reports whether e references one of the pipeline inputs in ins or
// one of the calls in calls.
func exprDepends(e *Expr, ins, calls map[string]bool) bool {
	if e == nil {
		return false
	}
	if e.Kind == ERef {
		if e.Self {
			return ins[e.Path[0]]
		}
		return calls[e.Call]
	}
	for _, x := range e.Elems {
		if exprDepends(x, ins, calls) {
			return true
		}
	}
	return false
}

// fullyDependent reports whether every stage call reachable from pipeline pl
// depends (through its bindings) on at least one of the inputs in ins.  martian
// does not fork calls that are independent of the mapped element; such calls
// inside a map-called pipeline trip over several defects (DESIGN.md, known
// findings), so by default they are not generated.
func (g *gen) fullyDependent(pl *PipelineDef, ins map[string]bool) bool {
	dep := map[string]bool{}
	for _, c := range pl.Calls {
		sub := map[string]bool{}
		for _, b := range c.Binds {
			if exprDepends(b.E, ins, dep) {
				sub[b.Param] = true
			}
		}
		if len(sub) == 0 {
			return false
		}
		if q := g.p.Pipeline(c.Callee); q != nil {
			if !g.fullyDependent(q, sub) {
				return false
			}
		}
		dep[c.Id] = true
	}
	return true
}

// splitSource finds or builds an expression of collection type st to map over.
func (g *gen) splitSource(st Ty, env []avail) *Expr {
	var cands []avail
	for _, a := range env {
		if a.t.Dims == st.Dims && g.assignable(st, a.t) {
			if !g.cfg.SplitDisabledOut && !a.e.Self && g.disabledCalls[a.e.Call] {
				// "split X.out" with X carrying a disabled modifier panics in
				// martian's fork expansion (known finding); not generated.
				continue
			}
			cands = append(cands, a)
		}
	}
	if len(cands) > 0 && g.pick(4) > 0 {
		return cands[g.pick(len(cands))].e
	}
	if g.pick(3) == 0 {
		// collection literal of references / literals ("split []" is not MRO)
		n := 1 + g.pick(2)
		if st.Dims[0] == 'a' {
			e := &Expr{Kind: EArr, T: st}
			for i := 0; i < n; i++ {
				e.Elems = append(e.Elems, g.exprFor(st.Elem(), env, 1))
			}
			return e
		}
		e := &Expr{Kind: EMap, T: st}
		for i := 0; i < n; i++ {
			e.Keys = append(e.Keys, fmt.Sprintf("s%d", i))
			e.Elems = append(e.Elems, g.exprFor(st.Elem(), env, 1))
		}
		return e
	}
	return g.shapedLit(st, g.litKeys(1+g.pick(g.cfg.MaxLit)))
}

// litKeys returns n distinct typed-map keys.
func (g *gen) litKeys(n int) []string {
	keys := make([]string, 0, n)
	seen := map[string]bool{}
	for i := 0; i < n; i++ {
		k := fmt.Sprintf("k%d", i)
		if len(g.cfg.AdvKeys) > 0 {
			k = g.cfg.AdvKeys[g.pick(len(g.cfg.AdvKeys))]
			if seen[k] {
				k = fmt.Sprintf("%s%d", k, i)
			}
		}
		seen[k] = true
		keys = append(keys, k)
	}
	if len(g.cfg.AdvKeys) > 0 && g.pick(4) == 0 {
		// a key together with a second key which is the first one's encoding
		// under one of the schemes a key might be passed through on its way to
		// a directory or journal name: the two must stay two forks
		k := keys[g.pick(len(keys))]
		var twin string
		switch g.pick(4) {
		case 0:
			twin = url.PathEscape(k)
		case 1:
			twin = url.QueryEscape(k)
		case 2:
			twin = strings.NewReplacer(".", "%2E", "/", "%2F", "%", "%25", " ", "%20", "_", "%5F").Replace(k)
		default:
			twin = strings.ToLower(url.PathEscape(k))
		}
		if !seen[twin] {
			seen[twin] = true
			keys = append(keys, twin)
		}
	}
	if len(g.cfg.AdvKeys) > 0 && g.pick(4) == 0 {
		// a key which ends in "_" + another key of the set (fork names are made by
		// joining with underscores), sorting before or after it
		k := keys[g.pick(len(keys))]
		twin := []string{"0_", "z_", "A_", "a_b_"}[g.pick(4)] + k
		if !seen[twin] {
			keys = append(keys, twin)
		}
	}
	return keys
}

// shapedLit makes a literal collection with one element per key (arrays use
// only the number of keys).
func (g *gen) shapedLit(st Ty, keys []string) *Expr {
	if st.Dims[0] == 'a' {
		out := make([]interface{}, len(keys))
		for i := range out {
			out[i] = g.litVal(st.Elem(), 1, &g.n)
		}
		return &Expr{Kind: ELit, Val: out, T: st}
	}
	m := NewOMap()
	for _, k := range keys {
		m.Set(k, g.litVal(st.Elem(), 1, &g.n))
	}
	return &Expr{Kind: ELit, Val: m, T: st}
}

func (g *gen) genTop() {
	pl := g.p.Pipelines[len(g.p.Pipelines)-1]
	c := &CallDef{Callee: pl.Name, Id: pl.Name}
	for _, f := range pl.Ins {
		c.Binds = append(c.Binds, Bind{f.Name, g.lit(f.T), false})
	}
	g.p.Top = c
}
