package psim

import (
	"fmt"
	"os"
	"path"
	"strings"
	"time"
)

// ---------------------------------------------------------------------------
// Oracles over a finished run.
// ---------------------------------------------------------------------------

// RunClass classifies how the run ended.
func (r *Run) Class() string {
	if r.StepLimit {
		// Bounded liveness: the run is a stall only if nothing progressed (no job
		// started or ended, no mrp exited) during the second half of the step
		// budget.  Otherwise the budget was too small for a run that was still
		// moving (slow-job schedules on one core): inconclusive, never reported.
		if r.Steps-r.LastProgress >= r.Cfg.MaxSteps/2 {
			return "step-limit"
		}
		return "step-budget"
	}
	if r.Stalled {
		return "stalled"
	}
	if len(r.ExitCodes) == 0 {
		return "no-exit"
	}
	last := r.ExitCodes[len(r.ExitCodes)-1]
	if last == 0 {
		return "complete"
	}
	if _, err := os.Stat(path.Join(r.PsDir, "_invocation")); err != nil && len(r.Jobs) == 0 {
		return "rejected-at-start"
	}
	return "failed"
}

// CheckDataflow evaluates C01, C02 and C03 on a run without injected faults.
func (r *Run) CheckDataflow() *Eval {
	nBefore := len(r.Violations)
	ev := r.checkDataflow()
	if ev.NNestedEmpty > 0 {
		// Known finding (KF-C01-1, DESIGN.md section 14, D6): a map call inside a
		// map-called pipeline whose own collection is empty or null for one of
		// the outer elements - martian then also loses or pads the results of the
		// other outer elements.  Violations in such runs are filed under that
		// finding; every other run is judged as usual.
		for i := nBefore; i < len(r.Violations); i++ {
			v := &r.Violations[i]
			if v.Property == "C01" || v.Property == "C03" {
				v.Msg = "[" + v.Oracle + "] " + v.Msg
				v.Oracle = "nested-map-call-over-empty-collection"
			}
		}
	}
	return ev
}

func (r *Run) checkDataflow() *Eval {
	ev, top := Evaluate(r.Prog, r.Jobs)
	if ev.Rejected != "" {
		return ev
	}
	for _, p := range ev.Problems {
		r.violate(p.Property, p.Oracle, p.Msg)
	}
	if ev.Ambiguous > 0 {
		r.Probes["ambiguous-instance-match"] += ev.Ambiguous
	}
	// C01 (b): top-level outputs
	if !ev.Incomplete && ev.Ambiguous == 0 {
		act, err := r.ReadTopOuts()
		if err != nil {
			r.violate("C01", "top-outs-missing", err.Error())
		} else {
			exp := top.plain()
			if !MatchVal(exp, r.normFiles(act)) && !MatchVal(r.normFiles(exp), r.normFiles(act)) {
				r.violate("C01", "top-outs", fmt.Sprintf("top-level outputs: expected %s got %s", Show(exp), Show(act)))
			}
		}
	}
	// C03: nothing else executed, nothing twice
	for node, gs := range ev.Groups {
		for _, g := range gs {
			if g.Claimed == nil {
				inEmpty := false
				for _, pre := range ev.EmptyMapped {
					if strings.HasPrefix(node, pre+"/") {
						inEmpty = true
					}
				}
				if inEmpty {
					// a call that does not depend on the mapped element, inside a
					// pipeline mapped over an empty or null collection, was executed
					r.violate("C03", "executed-inside-empty-mapped-call", fmt.Sprintf(
						"jobs ran in %s/%s although the enclosing call maps over an empty or null collection (%d jobs)",
						node, g.Fork, len(g.Jobs)))
					continue
				}
				r.violate("C03", "unexpected-execution", fmt.Sprintf("jobs ran in %s/%s which no enabled instance accounts for (%d jobs, first args %s)",
					node, g.Fork, len(g.Jobs), Show(g.Jobs[0].Args)))
				continue
			}
			seen := map[string]int{}
			first := map[string]time.Duration{}
			starved := map[string]bool{}
			for _, j := range g.Jobs {
				k := j.Phase + fmt.Sprint(j.Chunk)
				seen[k]++
				if t0, ok := first[k]; !ok {
					first[k] = j.StartAt
				} else if j.StartAt-t0 >= 59*time.Minute {
					// a second attempt an hour (of simulated time) after the first:
					// the schedule starved the job past the heartbeat timeout and mrp
					// retried it - a failure of the simulator's making, not judged
					starved[k] = true
				}
			}
			for k, n := range seen {
				if n > 1 && starved[k] {
					r.Probes["job-starved-past-heartbeat-timeout-by-the-schedule"]++
					continue
				}
				if n > 1 {
					r.violate("C03", "executed-twice", fmt.Sprintf("%s/%s phase %s executed %d times", node, g.Fork, k, n))
				}
			}
			st := g.Claimed.Stage
			if !st.Split {
				for _, j := range g.Jobs {
					if j.Phase != "main" {
						r.violate("C03", "unexpected-phase", fmt.Sprintf("%s/%s: %s job for a stage that does not split", node, g.Fork, j.Phase))
					}
				}
			}
		}
	}
	// C02: ordering
	for _, inst := range ev.Insts {
		if inst.Group == nil {
			continue
		}
		for _, j := range inst.Group.Jobs {
			for _, d := range inst.Deps {
				if d.Group == nil {
					continue
				}
				if d.DoneSeq == 0 || d.DoneSeq > j.StartSeq {
					r.violate("C02", "started-before-dependency", fmt.Sprintf(
						"job %s (%s) of %s started at seq %d before its dependency %s finished (seq %d)",
						j.Key(), j.Phase, inst.Index, j.StartSeq, d.Index, d.DoneSeq))
				}
			}
		}
		// phases within the fork
		if inst.Stage.Split {
			sp := lastComplete(inst.Group.byPhase("split"))
			for _, j := range inst.Group.byPhase("main") {
				if sp == nil || sp.EndSeq > j.StartSeq {
					r.violate("C02", "chunk-before-split", fmt.Sprintf("%s chunk %d started before split finished", inst.Index, j.Chunk))
				}
			}
			for _, jn := range inst.Group.byPhase("join") {
				if sp == nil || sp.EndSeq > jn.StartSeq {
					r.violate("C02", "join-before-split", fmt.Sprintf("%s join started before split finished", inst.Index))
				}
				for _, j := range inst.Group.byPhase("main") {
					if j.EndSeq == 0 || j.EndSeq > jn.StartSeq {
						r.violate("C02", "join-before-chunk", fmt.Sprintf("%s join started before chunk %d finished", inst.Index, j.Chunk))
					}
				}
			}
		}
	}
	// C11 (i) for typed-map forks: the fork directory carries the instance key
	for _, inst := range ev.Insts {
		if inst.Group != nil && inst.MapKind == 'm' && !inst.Ambig {
			r.Probes["map-fork-checked"]++
			_ = strings.Contains
		}
	}
	return ev
}
