package psim

import (
	"path"
	"fmt"
	"net/url"
	"os"
	"strings"
)

func DefaultGenCfg() *GenCfg {
	return &GenCfg{MaxStages: 4, MaxPipelines: 3, MaxCalls: 4, MaxParams: 3, MaxLit: 3,
		Structs: true, TypedMaps: true, Splits: true, MapCalls: true, Disabled: true,
		ExecStages: true, Local: true}
}

// swarmGen draws a generator configuration: each feature is switched on or off
// per case so that runs are diverse.
func swarmGen(plan *Tape, thorough bool) *GenCfg {
	c := &GenCfg{}
	c.MaxStages = 2 + plan.Draw(4)
	c.MaxPipelines = 1 + plan.Draw(3)
	c.MaxCalls = 1 + plan.Draw(5)
	c.MaxParams = 1 + plan.Draw(3)
	c.MaxLit = 1 + plan.Draw(3)
	if thorough {
		c.MaxStages += plan.Draw(4)
		c.MaxCalls += plan.Draw(4)
		c.MaxLit += plan.Draw(9)
	}
	c.Structs = plan.Draw(3) > 0
	c.TypedMaps = plan.Draw(3) > 0
	c.Splits = plan.Draw(3) > 0
	c.MapCalls = plan.Draw(4) > 0
	c.Disabled = plan.Draw(3) > 0
	c.ExecStages = plan.Draw(2) > 0
	c.Local = plan.Draw(3) == 1
	c.Preflight = plan.Draw(3) == 1
	// Nested map calls stay out of the generator (only the family templateNestedProg
	// has them): with several instances of the map-calling pipeline, or one-element
	// inner collections next to longer ones, martian fails to match forks
	// (DESIGN.md section 14, D1/D5/D7) - found again by a sweep when they were on.
	c.NestedArrayMaps = false
	// experiments only: switch excluded constructs back on (DESIGN.md section 14)
	if x := os.Getenv("VERIF_ALLOW"); x != "" {
		c.NestedMaps = strings.Contains(x, "nested,") || x == "nested"
		c.NestedArrayMaps = strings.Contains(x, "nestedarrays")
		c.InvariantInMapped = strings.Contains(x, "invariant")
		c.SplitDisabledOut = strings.Contains(x, "splitdisabled")
		c.DisabledMappedPipeline = strings.Contains(x, "disabledmapped")
	}
	return c
}

// swarmSched draws scheduling weights.
func swarmSched(plan *Tape, cfg *RunCfg) {
	ws := []int{1, 1, 3, 10, 30}
	cfg.WMrp = ws[plan.Draw(len(ws))]
	cfg.WJob = ws[plan.Draw(len(ws))]
	cfg.WAux = ws[plan.Draw(len(ws))]
	cfg.WTime = []int{0, 0, 1, 3}[plan.Draw(4)]
	cfg.MapMode = plan.Draw(3)
	cfg.MapSalt = uint64(plan.Draw(1 << 30))
	// some runs make one class of jobs slow: preflights, or the jobs of one stage
	switch plan.Draw(4) {
	case 1:
		cfg.SlowLabel, cfg.SlowDiv = "PFST", 64
	case 2:
		cfg.SlowLabel, cfg.SlowDiv = fmt.Sprintf("ST%d", 1+plan.Draw(6)), 64
	}
}

func progShape(p *Prog) string {
	return fmt.Sprintf("%x", hash64(p.Source()))
}

func describeRun(r *Run, withProg bool) map[string]interface{} {
	m := map[string]interface{}{
		"class": r.Class(), "steps": r.Steps, "exit_codes": r.ExitCodes,
		"jobs": len(r.Jobs), "sim_time": r.SimTime.String(), "flags": r.Cfg.Flags,
	}
	if withProg {
		m["program"] = r.Prog.Source()
	}
	if len(r.Trace) > 0 {
		var lines []string
		for _, e := range r.Trace {
			lines = append(lines, fmt.Sprintf("%d %s %s %s", e.Step, e.Task, e.Kind, e.Detail))
		}
		if len(lines) > 400 && os.Getenv("VERIF_FULLSCHED") == "" {
			lines = append(lines[:200], append([]string{"..."}, lines[len(lines)-200:]...)...)
		}
		m["schedule"] = lines
	}
	var jobs []string
	for _, j := range r.Jobs {
		jobs = append(jobs, fmt.Sprintf("%d-%d %s %s %s", j.StartSeq, j.EndSeq, j.Key(), j.Phase, j.Outcome))
	}
	m["job_history"] = jobs
	if len(r.Ops) > 0 {
		m["operator"] = r.Ops
	}
	if os.Getenv("VERIF_FULLSCHED") != "" {
		if b, err := os.ReadFile(path.Join(r.PsDir, "_log")); err == nil {
			var keep []string
			for _, l := range strings.Split(string(b), "\n") {
				if strings.Contains(l, "instance of") || strings.Contains(l, "eartbeat") || strings.Contains(l, "WARNING") {
					keep = append(keep, l)
				}
			}
			if len(keep) > 40 {
				keep = append(keep[:20], keep[len(keep)-20:]...)
			}
			m["mrp_log_file_excerpt"] = keep
		}
	}
	if r.Class() != "complete" || os.Getenv("VERIF_FULLSCHED") != "" {
		out := r.outBuf.String()
		if len(out) > 3000 && os.Getenv("VERIF_FULLSCHED") == "" {
			out = out[len(out)-3000:]
		}
		m["mrp_output_tail"] = out
	}
	return m
}

func baseFlags(plan *Tape) []string {
	cores := []int{1, 2, 4, 64}[plan.Draw(4)]
	mem := []int{2, 8, 64}[plan.Draw(3)]
	return []string{fmt.Sprintf("--localcores=%d", cores), fmt.Sprintf("--localmem=%d", mem)}
}

// dataflowCase is shared by C01, C02 and C03: a generated program, no faults,
// an adversarial schedule; the history is checked against the reference evaluator.
func dataflowCase(c *Ctx, focus string) {
	if focus == "C02" && (c.Plan.Draw(8) == 0 || os.Getenv("VERIF_C02") == "restart") {
		// the order of jobs across retries and restarts
		c02Restart(c)
		return
	}
	if focus == "C01" && (c.Plan.Draw(10) == 0 || os.Getenv("VERIF_C01") == "restart") {
		// the arguments of jobs across retries and restarts
		restartFamily(c, "C01")
		return
	}
	gcfg := swarmGen(c.Plan, c.thorough())
	if focus == "C02" && c.Plan.Draw(2) == 0 {
		gcfg.Preflight = true
	}
	if AdvOn {
		gcfg.TypedMaps, gcfg.MapCalls = true, true
		gcfg.AdvKeys = AdvKeys
		gcfg.MapBias = true
	}
	prog := Generate(c.Plan, gcfg)
	narrow, nested := false, false
	if AdvOn && c.Plan.Draw(8) == 0 {
		// fork ids of two parts: a pipeline holding a map call, itself map-called
		// over a typed map with adversarial keys produced at run time
		prog = templateNestedProg(c.Plan)
		nested = true
		c.Res.Probes["template-nested-map-program"]++
	}
	if focus == "C03" && (c.Plan.Draw(24) == 0 || os.Getenv("VERIF_NESTED_AM") != "") {
		// nested map calls, outer array / inner typed map (known finding KF-C03-2)
		NestedAM = true
		prog = templateNestedProg(c.Plan)
		NestedAM = false
		nested = true
		c.Res.Probes["template-nested-array-of-maps-program"]++
	}
	if focus == "C01" && (c.Plan.Draw(24) == 0 || os.Getenv("VERIF_NESTED_CHAIN") != "") {
		// a map call over the results of a sibling map call, inside a map-called
		// pipeline (known finding KF-C01-2)
		NestedChain = true
		prog = templateNestedProg(c.Plan)
		NestedChain = false
		nested = true
		c.Res.Probes["template-nested-chained-map-calls-program"]++
	}
	if !AdvOn && !prog.ArrayOfMaps && !prog.NestedChain {
		switch c.Plan.Draw(16) {
		case 0, 1:
			prog = templateDisabledProg(c.Plan)
			c.Res.Probes["template-disabled-program"]++
		case 2:
			prog = templateNarrowProg(c.Plan)
			narrow = true
			c.Res.Probes["template-narrowing-program"]++
		case 4:
			prog = templateDeepDisabledProg(c.Plan)
			c.Res.Probes["template-deep-disabled-program"]++
		case 5:
			prog = templateMixedFlagsProg(c.Plan)
			c.Res.Probes["template-mixed-flags-program"]++
		case 3:
			prog = templateNestedProg(c.Plan)
			nested = true
			c.Res.Probes["template-nested-map-program"]++
		}
	}
	cfg := &RunCfg{Prog: prog, FCfg: &FCfg{MaxLen: 1 + c.Plan.Draw(3), MaxChunks: c.Plan.Draw(4), Salt: "df", AllowNil: c.Plan.Draw(4) == 0},
		MaxSteps: 60000}
	if nested {
		cfg.FCfg.MaxLen = 2 + c.Plan.Draw(2)
		cfg.FCfg.Salt = fmt.Sprintf("nest%d", c.Plan.Draw(4000))
		cfg.FCfg.AllowNil = false
	}
	if narrow {
		cfg.FCfg.AllowNil = c.Plan.Draw(4) > 0
		cfg.FCfg.MaxLen = 2 + c.Plan.Draw(5)
		cfg.FCfg.Salt = fmt.Sprintf("df%d", c.Plan.Draw(1000))
		cfg.MapMode = c.Plan.Draw(3)
		cfg.MapSalt = uint64(c.Plan.Draw(1 << 20))
	}
	if AdvOn {
		cfg.FCfg.KeyAlphabet = AdvKeys
		cfg.FCfg.MaxLen += c.Plan.Draw(3)
		if c.Plan.Draw(3) == 0 {
			cfg.FCfg.MaxChunks = 9 + c.Plan.Draw(4) // cross the decimal-width boundary of chunk names
		}
	}
	if !AdvOn && c.Plan.Draw(10) == 0 {
		// chunk counts across the decimal-width boundary: the join must still get
		// the chunk outputs complete and in chunk order
		cfg.FCfg.MaxChunks = 9 + c.Plan.Draw(5)
		c.Res.Probes["many-chunks-cases"]++
	}
	if prog.ArrayOfMaps || prog.NestedChain {
		cfg.MaxSteps = 12000 // most of these runs never finish (KF-C03-2)
	}
	cfg.FCfg.BigInts = c.Plan.Draw(3) == 0
	cfg.Flags = append(baseFlags(c.Plan), "--vdrmode=disable", "--strict=error")
	if c.Plan.Draw(6) == 0 || os.Getenv("VERIF_DF_CLUSTER") != "" {
		// cluster mode: two job managers (`local` calls and, unless told otherwise,
		// preflight stay with the local one), submission slots, a queue poll; the
		// dataflow semantics do not depend on where a job runs
		cfg.JobMode = "sge"
		if c.Plan.Draw(2) == 0 {
			cfg.Flags = append(cfg.Flags, fmt.Sprintf("--maxjobs=%d", 1+c.Plan.Draw(4)))
		}
		if c.Plan.Draw(2) == 0 {
			cfg.Flags = append(cfg.Flags, fmt.Sprintf("--jobinterval=%d", []int{0, 100, 2000}[c.Plan.Draw(3)]))
		}
		c.Res.Probes["cluster-mode-cases"]++
	}
	swarmSched(c.Plan, cfg)
	r := c.RunOnce(cfg, nil)
	c.Res.Shape = progShape(prog)
	c.Res.Class = r.Class()
	if cfg.JobMode != "" {
		for _, j := range r.Jobs {
			if j.JobType == "local" {
				c.Res.Probes["jobs-kept-local-in-cluster-mode"]++
			} else if j.JobType != "" {
				c.Res.Probes["jobs-submitted-to-the-cluster"]++
			}
		}
	}
	for _, p := range r.Panics {
		// a crash of mrp itself is recorded; whether it violates the property under
		// test is decided by that property's oracle
		c.Res.Notes = append(c.Res.Notes, "mrp panic: "+firstLines(p, 4))
		c.Res.Probes["mrp-panic"]++
		c.Res.Violations = append(c.Res.Violations, Violation{"OBS", "mrp-panic", firstLines(p, 14), r.Steps})
	}
	cls := r.Class()
	if len(r.Panics) > 0 && cls == "failed" {
		cls = "mrp-panicked"
		c.Res.Class = cls
	}
	if strings.Contains(r.outBuf.String(), "No heartbeat detected") && r.Cfg.JobFaults == nil {
		// the schedule starved a job for an hour of simulated time: mrp gave it up;
		// that is a failure of the simulator's making, and these profiles judge
		// runs without failures
		cls = "heartbeat-starved"
		c.Res.Class = cls
	}
	switch cls {
	case "heartbeat-starved":
		c.Res.Notes = append(c.Res.Notes, "a job was starved past the heartbeat timeout by the schedule; run not judged")
	case "complete":
		nBefore := len(r.Violations)
		ev := r.CheckDataflow()
		// violations found by CheckDataflow were added to r after addRun
		if ev.Rejected != "" {
			c.Res.Class = "model-rejected-but-completed"
			c.Res.Notes = append(c.Res.Notes, "model rejected: "+ev.Rejected)
		} else {
			c.Res.Violations = append(c.Res.Violations, r.Violations[nBefore:]...)
		}
		c.Res.Probes["instances"] += len(ev.Insts)
		c.Res.Probes["mapped-calls"] += ev.NMapped
		c.Res.Probes["disabled-calls"] += ev.NDisabled
		c.Res.Probes["map-calls-inside-map-called-pipelines"] += ev.NNested
		c.Res.Probes["statically-null-output-of-runtime-disabled-pipeline"] += ev.NStaticNull
		c.Res.Probes["empty-or-null-map-source"] += ev.NEmptyMap
		c.Res.Probes["struct-narrowing"] += ev.NNarrow
		c.Res.Probes["projections"] += ev.NProj
		c.Res.Probes["shared-invariant-instance"] += ev.NShared
		for _, in := range ev.Insts {
			if in.Preflight {
				c.Res.Probes["preflight-instances"]++
			}
		}
		if AdvOn {
			// reach of the adversarial key sets: map calls over typed maps whose
			// key set holds a key ending in "_"+another key, or a key next to its
			// percent-encoded form
			keysOf := map[string]map[string]bool{}
			for _, in := range ev.Insts {
				if in.MapKind == 'm' {
					if keysOf[in.Node] == nil {
						keysOf[in.Node] = map[string]bool{}
					}
					keysOf[in.Node][in.MapKey] = true
				}
			}
			for _, ks := range keysOf {
				if len(ks) >= 2 {
					c.Res.Probes["typed-map-calls-with-two-or-more-forks"]++
				}
				suffix, enc := false, false
				for a := range ks {
					for b := range ks {
						if a != b && strings.HasSuffix(a, "_"+b) {
							suffix = true
						}
						if a != b && url.PathEscape(b) == a {
							enc = true
						}
					}
				}
				if suffix {
					c.Res.Probes["typed-map-calls-with-a-key-ending-in-underscore-other-key"]++
				}
				if enc {
					c.Res.Probes["typed-map-calls-with-a-key-and-its-encoding"]++
				}
			}
		}
		c.Res.Nontrivial = len(r.Jobs) >= 3
	case "rejected-at-start":
		c.Res.Notes = append(c.Res.Notes, "mrp rejected the program: "+lastLines(r.outBuf.String(), 6))
	case "failed":
		ev, _ := Evaluate(r.Prog, r.Jobs)
		if ev.Rejected != "" {
			c.Res.Class = "rejected-at-runtime"
			c.Res.Notes = append(c.Res.Notes, "model rejected: "+ev.Rejected)
		} else {
			c.Res.Violations = append(c.Res.Violations, Violation{"C01", "valid-program-failed",
				"pipestance failed on a program the model accepts: " + lastLines(r.outBuf.String(), 12), r.Steps})
		}
	case "mrp-panicked":
	case "step-budget":
		c.Res.Notes = append(c.Res.Notes, "step budget exhausted while the run was still progressing")
	default:
		c.Res.Violations = append(c.Res.Violations, Violation{"SIM", "run-" + r.Class(),
			"run did not terminate: " + lastLines(r.outBuf.String(), 8), r.Steps})
	}
	if prog.NestedChain {
		// Known finding KF-C01-2: the second call's arguments cannot be resolved ("cannot
		// filter int to int[]"), the pipestance fails or never finishes.  Everything such
		// a run shows is filed under that finding.
		for i := range c.Res.Violations {
			v := &c.Res.Violations[i]
			if v.Property == "OBS" {
				continue
			}
			v.Msg = "[" + v.Property + " " + v.Oracle + "] " + v.Msg
			v.Property, v.Oracle = "C01", "mapped-call-over-sibling-mapped-call-inside-mapped-pipeline"
		}
	}
	if prog.ArrayOfMaps {
		// Known finding KF-C03-2: martian does not get the forks of this shape right
		// (forks of later outer elements are not expanded when the first element's map
		// has a single key; forks of different elements share one directory; the
		// pipestance never finishes or fails).  Everything such a run shows is filed
		// under that finding; every other run is judged as usual.
		for i := range c.Res.Violations {
			v := &c.Res.Violations[i]
			if v.Property == "OBS" {
				continue
			}
			v.Msg = "[" + v.Property + " " + v.Oracle + "] " + v.Msg
			v.Property, v.Oracle = "C03", "nested-map-call-over-array-of-typed-maps"
		}
	}
	if c.Keep || len(c.Res.Violations) > 0 || c.Res.Sample == nil {
		c.Res.Sample = describeRun(r, true)
	}
}

func firstLines(s string, n int) string {
	lines := strings.Split(strings.TrimSpace(s), "\n")
	if len(lines) > n {
		lines = lines[:n]
	}
	return strings.Join(lines, " / ")
}

func lastLines(s string, n int) string {
	lines := strings.Split(strings.TrimSpace(s), "\n")
	if len(lines) > n {
		lines = lines[len(lines)-n:]
	}
	return strings.Join(lines, " / ")
}

// AdvKeys is the adversarial typed-map key alphabet of the C11 profile: keys
// with dots, slashes, percent signs, spaces, non-ASCII text, text that looks like
// an encoded key, like a fork/chunk/uniquifier component, and pairs where one
// key is a suffix of the other.
var AdvKeys = []string{"a.b", "a/b", "%", "%2E", "%2F", "a%2Eb", "fork0", "fork_R", "u0123456789", "chnk1",
	"x y", " lead", "ünï", "日本", "R", "L_R", "2", "1_2", "z%", "x.y_z%", "k", "K", "a.b.c", "..", "-", "_", "0", "00", "01",
	"complete", "split_complete", "a.complete", "chr1:100-200", "k=v&w", "x+y@z", "p;q,r", "(x)!*'", "very_long_key_abcdefghijklmnopqrstuvwxyz_0123456789_abcdefghijklmnopqrstuvwxyz"}

func c11Case(c *Ctx) {
	sel := c.Plan.Draw(10)
	switch os.Getenv("VERIF_C11") { // experiments: force one sub-profile
	case "stale":
		sel = 0
	case "stall":
		sel = 1
	case "quick":
		sel = 2
	}
	switch sel {
	case 0:
		c11Stale(c)
		return
	case 1:
		c11Stall(c)
		return
	case 2:
		c11QuickRetry(c)
		return
	}
	AdvOn = true
	defer func() { AdvOn = false }()
	dataflowCase(c, "C11")
	for i := range c.Res.Violations {
		v := &c.Res.Violations[i]
		if v.Property == "C01" || v.Property == "C02" || v.Property == "C03" {
			v.Oracle = v.Property + "-" + v.Oracle
			v.Property = "C11"
		}
		if v.Property == "SIM" && (v.Oracle == "run-step-limit" || v.Oracle == "run-stalled") {
			v.Property, v.Oracle = "C11", "mapped-call-never-completes"
		}
	}
}

// AdvOn switches the dataflow case to adversarial typed-map keys.
var AdvOn bool

// NestedAM makes templateNestedProg add a pipeline map-called over an array of typed maps
// (the inner call is mapped over the keys of each element).
var NestedAM bool

// NestedChain makes templateNestedProg add, inside the map-called pipeline, a second map
// call over the results of the first one.
var NestedChain bool

// NestedStatic makes templateNestedProg map ROW over a literal array of arrays.
var NestedStatic bool

func init() {
	Profiles["C11"] = c11Case
	Profiles["C01"] = func(c *Ctx) { dataflowCase(c, "C01") }
	Profiles["C02"] = func(c *Ctx) { dataflowCase(c, "C02") }
	Profiles["C03"] = func(c *Ctx) { dataflowCase(c, "C03") }
}

// templateDisabledProg builds a program from the family "values guarded by
// several run-time disable conditions": flags computed by stages, a producer
// disabled by one flag, a sub-pipeline (passing its input through and calling a
// stage) disabled by another, consumers of single fields and of whole structs.
// templateNarrowProg: a producer whose outputs are (collections of) a wide struct,
// bound to consumers and pipeline outputs declared with a narrower struct, in every
// container the run-time filter distinguishes (plain, array, typed map, map of
// arrays, field of an outer struct), directly and through a sub-pipeline.  The extra
// fields must be dropped everywhere (C01); elements may be null.
func templateNarrowProg(plan *Tape) *Prog {
	p := &Prog{}
	intT, strT := Ty{Base: "int"}, Ty{Base: "string"}
	narrow := &StructDef{Name: "NARROW", Fields: []Field{{"a", intT}}}
	wide := &StructDef{Name: "WIDE", Fields: []Field{{"a", intT}, {"b", strT}, {"c", intT.ArrayOf()}}}
	outerN := &StructDef{Name: "OUTERN", Fields: []Field{{"one", Ty{Base: "NARROW"}}, {"many", Ty{Base: "NARROW", Dims: "m"}}}}
	outerW := &StructDef{Name: "OUTERW", Fields: []Field{{"one", Ty{Base: "WIDE"}}, {"many", Ty{Base: "WIDE", Dims: "m"}}, {"extra", intT}}}
	p.Structs = []*StructDef{narrow, wide, outerN, outerW}
	ref := func(call string, path ...string) *Expr { return &Expr{Kind: ERef, Call: call, Path: path} }
	self := func(path ...string) *Expr { return &Expr{Kind: ERef, Self: true, Path: path} }
	shapes := []string{"", "a", "m", "ma", "am"}
	var pouts, cins []Field
	for i, d := range shapes {
		pouts = append(pouts, Field{fmt.Sprintf("w%d", i), Ty{Base: "WIDE", Dims: d}})
		cins = append(cins, Field{fmt.Sprintf("n%d", i), Ty{Base: "NARROW", Dims: d}})
	}
	pouts = append(pouts, Field{"wo", Ty{Base: "OUTERW"}}, Field{"wom", Ty{Base: "OUTERW", Dims: "m"}})
	cins = append(cins, Field{"no", Ty{Base: "OUTERN"}}, Field{"nom", Ty{Base: "OUTERN", Dims: "m"}})
	p.Stages = []*StageDef{
		{Name: "PRODUCE", SrcKind: "comp", Ins: []Field{{"seed", intT}}, Outs: pouts},
		{Name: "CONSUME", SrcKind: "comp", Ins: cins, Outs: []Field{{"done", intT}}},
	}
	pass := &PipelineDef{Name: "PASS", Ins: append([]Field{}, cins...)}
	for _, f := range cins {
		pass.Outs = append(pass.Outs, Field{"r_" + f.Name, f.T})
		pass.Ret = append(pass.Ret, Bind{"r_" + f.Name, self(f.Name), false})
	}
	pc := &CallDef{Callee: "CONSUME", Id: "CONSUME"}
	for _, f := range cins {
		pc.Binds = append(pc.Binds, Bind{f.Name, self(f.Name), false})
	}
	pass.Calls = []*CallDef{pc}
	top := &PipelineDef{Name: "TOPN", Ins: []Field{{"seed", intT}}}
	top.Calls = append(top.Calls, &CallDef{Callee: "PRODUCE", Id: "PRODUCE", Binds: []Bind{{"seed", self("seed"), false}}})
	direct := &CallDef{Callee: "CONSUME", Id: "CONSUME"}
	via := &CallDef{Callee: "PASS", Id: "PASS"}
	for i, f := range cins {
		direct.Binds = append(direct.Binds, Bind{f.Name, ref("PRODUCE", pouts[i].Name), false})
		via.Binds = append(via.Binds, Bind{f.Name, ref("PRODUCE", pouts[i].Name), false})
	}
	if plan.Draw(3) > 0 {
		top.Calls = append(top.Calls, direct)
	}
	usePass := plan.Draw(2) == 0
	if usePass {
		p.Pipelines = append(p.Pipelines, pass)
		top.Calls = append(top.Calls, via)
	}
	for i, f := range cins {
		if plan.Draw(2) == 0 {
			top.Outs = append(top.Outs, Field{"t_" + f.Name, f.T})
			top.Ret = append(top.Ret, Bind{"t_" + f.Name, ref("PRODUCE", pouts[i].Name), false})
		} else if usePass {
			top.Outs = append(top.Outs, Field{"t_" + f.Name, f.T})
			top.Ret = append(top.Ret, Bind{"t_" + f.Name, ref("PASS", "r_"+f.Name), false})
		}
	}
	if len(top.Outs) == 0 {
		top.Outs = []Field{{"t_n0", cins[0].T}}
		top.Ret = []Bind{{"t_n0", ref("PRODUCE", "w0"), false}}
	}
	if plan.Draw(2) == 0 {
		// a call bound as a whole to a struct with the same members whose nested type is
		// narrower - next to consumers (and a top-level output) of the full nested value
		p.Structs = append(p.Structs, &StructDef{Name: "WHOLEN", Fields: []Field{{"inner", Ty{Base: "NARROW"}}, {"n", intT}, {"many", Ty{Base: "NARROW", Dims: "a"}}}})
		p.Stages = append(p.Stages,
			&StageDef{Name: "PRODUCE2", SrcKind: "comp", Ins: []Field{{"seed", intT}}, Outs: []Field{{"inner", Ty{Base: "WIDE"}}, {"n", intT}, {"many", Ty{Base: "WIDE", Dims: "a"}}}},
			&StageDef{Name: "CONSW", SrcKind: "comp", Ins: []Field{{"s", Ty{Base: "WHOLEN"}}}, Outs: []Field{{"done", intT}}},
			&StageDef{Name: "CONSX", SrcKind: "comp", Ins: []Field{{"inner", Ty{Base: "WIDE"}}, {"c", intT.ArrayOf()}, {"many", Ty{Base: "WIDE", Dims: "a"}}}, Outs: []Field{{"done", intT}}})
		top.Calls = append(top.Calls, &CallDef{Callee: "PRODUCE2", Id: "PRODUCE2", Binds: []Bind{{"seed", self("seed"), false}}})
		cw := &CallDef{Callee: "CONSW", Id: "CONSW", Binds: []Bind{{"s", ref("PRODUCE2"), false}}}
		cx := &CallDef{Callee: "CONSX", Id: "CONSX", Binds: []Bind{{"inner", ref("PRODUCE2", "inner"), false}, {"c", ref("PRODUCE2", "inner", "c"), false}, {"many", ref("PRODUCE2", "many"), false}}}
		if plan.Draw(2) == 0 {
			top.Calls = append(top.Calls, cw, cx)
		} else {
			top.Calls = append(top.Calls, cx, cw)
		}
		top.Outs = append(top.Outs, Field{"t_whole", Ty{Base: "WHOLEN"}}, Field{"t_inner", Ty{Base: "WIDE"}}, Field{"t_many", Ty{Base: "WIDE", Dims: "a"}})
		top.Ret = append(top.Ret, Bind{"t_whole", ref("PRODUCE2"), false}, Bind{"t_inner", ref("PRODUCE2", "inner"), false}, Bind{"t_many", ref("PRODUCE2", "many"), false})
	}
	// values known at compile time take another path (the expression filter):
	// literal collections of the wide struct, some elements null (also the last
	// one), passed in from the top-level call and narrowed at a stage input and at
	// a pipeline output
	wideLit := func(i int) interface{} {
		m := NewOMap()
		m.Set("a", int64(10+i))
		m.Set("b", fmt.Sprintf("b%d", i))
		m.Set("c", []interface{}{int64(i)})
		return m
	}
	n := 2 + plan.Draw(3)
	var arr []interface{}
	lm := NewOMap()
	for i := 0; i < n; i++ {
		var v interface{} = wideLit(i)
		if plan.Draw(3) == 0 || (i == n-1 && plan.Draw(2) == 0) {
			v = nil
		}
		arr = append(arr, v)
		var mv interface{} = wideLit(i + 20)
		if plan.Draw(3) == 0 {
			mv = nil
		}
		lm.Set(fmt.Sprintf("key%d", i), mv)
	}
	wa, wm := Ty{Base: "WIDE", Dims: "a"}, Ty{Base: "WIDE", Dims: "m"}
	na, nm := Ty{Base: "NARROW", Dims: "a"}, Ty{Base: "NARROW", Dims: "m"}
	p.Stages = append(p.Stages, &StageDef{Name: "CONSUMEL", SrcKind: "comp", Ins: []Field{{"n", na}, {"m", nm}}, Outs: []Field{{"done", intT}}})
	top.Ins = append(top.Ins, Field{"wl", wa}, Field{"wm", wm})
	top.Calls = append(top.Calls, &CallDef{Callee: "CONSUMEL", Id: "CONSUMEL", Binds: []Bind{{"n", self("wl"), false}, {"m", self("wm"), false}}})
	top.Outs = append(top.Outs, Field{"t_wl", na}, Field{"t_wm", nm})
	top.Ret = append(top.Ret, Bind{"t_wl", self("wl"), false}, Bind{"t_wm", self("wm"), false})
	p.Pipelines = append(p.Pipelines, top)
	p.Top = &CallDef{Callee: "TOPN", Id: "TOPN", Binds: []Bind{
		{"seed", &Expr{Kind: ELit, Val: int64(plan.Draw(1000)), T: intT}, false},
		{"wl", &Expr{Kind: ELit, Val: arr, T: wa}, false},
		{"wm", &Expr{Kind: ELit, Val: lm, T: wm}, false}}}
	return p
}

// templateNestedProg: a pipeline holding a map call over an array is itself map-called
// over collections of arrays that a stage produces at run time (array of arrays,
// typed map of arrays): the fork count of every level is only known at run time and
// the inner sizes differ between outer elements (one-element, empty and longer rows
// side by side).  Every (outer, inner) combination runs exactly once (C03).
func templateNestedProg(plan *Tape) *Prog {
	p := &Prog{}
	intT := Ty{Base: "int"}
	ref := func(call string, path ...string) *Expr { return &Expr{Kind: ERef, Call: call, Path: path} }
	self := func(path ...string) *Expr { return &Expr{Kind: ERef, Self: true, Path: path} }
	grid := Ty{Base: "int", Dims: "aa"}
	keyed := Ty{Base: "int", Dims: "ma"}
	work := &StageDef{Name: "WORK", SrcKind: "comp", Ins: []Field{{"x", intT}, {"k", intT}}, Outs: []Field{{"y", intT}}}
	if plan.Draw(3) == 0 {
		work.Split = true
		work.ChunkIns = []Field{{"c0", intT}}
		work.ChunkOuts = []Field{{"part", intT}}
	}
	p.Stages = []*StageDef{
		{Name: "MAKE", SrcKind: "comp", Ins: []Field{{"n", intT}}, Outs: []Field{{"grid", grid}, {"keyed", keyed}}},
		work,
	}
	row := &PipelineDef{Name: "ROW", Ins: []Field{{"xs", intT.ArrayOf()}, {"k", intT}}, Outs: []Field{{"ys", intT.ArrayOf()}}}
	row.Calls = []*CallDef{{Callee: "WORK", Id: "WORK", Mapped: true, Binds: []Bind{{"x", self("xs"), true}, {"k", self("k"), false}}}}
	row.Ret = []Bind{{"ys", ref("WORK", "y"), false}}
	if NestedChain {
		// a second mapped call inside the mapped pipeline, over the results of the first
		p.Stages = append(p.Stages, &StageDef{Name: "WORK2", SrcKind: "comp", Ins: []Field{{"x", intT}}, Outs: []Field{{"z", intT}}})
		row.Calls = append(row.Calls, &CallDef{Callee: "WORK2", Id: "WORK2", Mapped: true, Binds: []Bind{{"x", ref("WORK", "y"), true}}})
		p.NestedChain = true
	}
	top := &PipelineDef{Name: "TOPX", Ins: []Field{{"n", intT}}}
	top.Calls = []*CallDef{{Callee: "MAKE", Id: "MAKE", Binds: []Bind{{"n", self("n"), false}}}}
	lit := func(v int) *Expr { return &Expr{Kind: ELit, Val: int64(v), T: intT} }
	if plan.Draw(4) > 0 {
		// (returning ROW.ys as int[][] is refused by the compiler - "filtering
		// merge: unexpected merge expression for int" - so the rows are only run)
		top.Calls = append(top.Calls, &CallDef{Callee: "ROW", Id: "ROW", Mapped: true, Binds: []Bind{{"xs", ref("MAKE", "grid"), true}, {"k", lit(1), false}}})
		top.Outs = append(top.Outs, Field{"grid", grid})
		top.Ret = append(top.Ret, Bind{"grid", ref("MAKE", "grid"), false})
	}
	if plan.Draw(2) == 0 || len(top.Calls) == 1 {
		top.Calls = append(top.Calls, &CallDef{Callee: "ROW", Id: "ROW_K", Mapped: true, Binds: []Bind{{"xs", ref("MAKE", "keyed"), true}, {"k", lit(2), false}}})
		top.Outs = append(top.Outs, Field{"bykey", keyed})
		top.Ret = append(top.Ret, Bind{"bykey", ref("ROW_K", "ys"), false})
	}
	if NestedStatic || plan.Draw(5) == 0 {
		// the outer collection is a literal with rows of different lengths (no empty
		// ones: those are known finding KF-C01-1 territory, and as literals they make
		// the pipestance fail outright - a fork with an empty name)
		nrows := 2 + plan.Draw(2)
		var rowsV []interface{}
		for i := 0; i < nrows; i++ {
			n := []int{1, 3, 2}[plan.Draw(3)]
			row := []interface{}{}
			for j := 0; j < n; j++ {
				row = append(row, int64(10*i+j+1))
			}
			rowsV = append(rowsV, row)
		}
		for _, cl := range top.Calls {
			if cl.Id == "ROW" {
				cl.Binds[0].E = &Expr{Kind: ELit, Val: rowsV, T: grid}
			}
		}
		p.StaticRagged = true
	}
	var extraPipes []*PipelineDef
	if NestedAM {
		// an array of typed maps: the inner call is mapped over the keys of each element
		rows := Ty{Base: "int", Dims: "am"}
		p.Stages[0].Outs = append(p.Stages[0].Outs, Field{"rows", rows})
		rowm := &PipelineDef{Name: "ROWM", Ins: []Field{{"xs", intT.MapOf()}, {"k", intT}}, Outs: []Field{{"ys", intT.MapOf()}}}
		rowm.Calls = []*CallDef{{Callee: "WORK", Id: "WORK", Mapped: true, Binds: []Bind{{"x", self("xs"), true}, {"k", self("k"), false}}}}
		rowm.Ret = []Bind{{"ys", ref("WORK", "y"), false}}
		extraPipes = append(extraPipes, rowm)
		top.Calls = append(top.Calls, &CallDef{Callee: "ROWM", Id: "ROWM", Mapped: true, Binds: []Bind{{"xs", ref("MAKE", "rows"), true}, {"k", lit(3), false}}})
		top.Outs = append(top.Outs, Field{"byrow", rows})
		top.Ret = append(top.Ret, Bind{"byrow", ref("ROWM", "ys"), false})
		p.ArrayOfMaps = true
	}
	if plan.Draw(3) == 0 {
		// the rows' second argument comes from another producer (which the interrupting
		// profiles make slow): the inner calls depend on it as much as on MAKE
		p.Stages = append(p.Stages, &StageDef{Name: "SLOW", SrcKind: "comp", Ins: []Field{{"n", intT}}, Outs: []Field{{"k", intT}}})
		top.Calls = append([]*CallDef{{Callee: "SLOW", Id: "SLOW", Binds: []Bind{{"n", self("n"), false}}}}, top.Calls...)
		for _, cl := range top.Calls {
			if cl.Callee == "ROW" {
				cl.Binds[1].E = ref("SLOW", "k")
			}
		}
	}
	p.Pipelines = append(append([]*PipelineDef{row}, extraPipes...), top)
	p.Top = &CallDef{Callee: "TOPX", Id: "TOPX", Binds: []Bind{{"n", lit(plan.Draw(10000)), false}}}
	return p
}

// templateDeepDisabledProg: two to five levels of sub-pipeline calls, each with a
// disabling condition computed at run time by its own stage, and in the innermost
// pipeline several sibling stage calls each with a condition of its own.  A call runs
// iff none of the conditions on its path is true (C03), whatever its siblings' are.
func templateDeepDisabledProg(plan *Tape) *Prog {
	p := &Prog{}
	intT, boolT := Ty{Base: "int"}, Ty{Base: "bool"}
	ref := func(call string, path ...string) *Expr { return &Expr{Kind: ERef, Call: call, Path: path} }
	self := func(path ...string) *Expr { return &Expr{Kind: ERef, Self: true, Path: path} }
	lit := func(v int) *Expr { return &Expr{Kind: ELit, Val: int64(v), T: intT} }
	p.Stages = []*StageDef{
		{Name: "FLAG", SrcKind: "comp", Ins: []Field{{"seed", intT}}, Outs: []Field{{"on", boolT}}},
		{Name: "WORK", SrcKind: "comp", Ins: []Field{{"k", intT}}, Outs: []Field{{"res", intT}}},
	}
	depth := 2 + plan.Draw(4)
	nsib := 2 + plan.Draw(3)
	// flags: one per level, one per sibling
	var flagNames []string
	for i := 0; i < depth; i++ {
		flagNames = append(flagNames, fmt.Sprintf("lv%d", i))
	}
	for i := 0; i < nsib; i++ {
		flagNames = append(flagNames, fmt.Sprintf("sb%d", i))
	}
	var ins []Field
	for _, f := range flagNames {
		ins = append(ins, Field{f, boolT})
	}
	ins = append(ins, Field{"k", intT})
	// innermost pipeline
	leaf := &PipelineDef{Name: "LEAF", Ins: ins}
	for i := 0; i < nsib; i++ {
		c := &CallDef{Callee: "WORK", Id: fmt.Sprintf("S%d", i), Binds: []Bind{{"k", self("k"), false}},
			Disabled: self(fmt.Sprintf("sb%d", i))}
		leaf.Calls = append(leaf.Calls, c)
		leaf.Outs = append(leaf.Outs, Field{fmt.Sprintf("r%d", i), intT})
		leaf.Ret = append(leaf.Ret, Bind{fmt.Sprintf("r%d", i), ref(c.Id, "res"), false})
	}
	// the enclosing flags are inputs of LEAF only so that every level can pass all
	// of them down; MRO wants every input used
	leaf.Outs = append(leaf.Outs, Field{"seen", boolT.ArrayOf()})
	var seen []*Expr
	for i := 0; i < depth; i++ {
		seen = append(seen, self(fmt.Sprintf("lv%d", i)))
	}
	leaf.Ret = append(leaf.Ret, Bind{"seen", &Expr{Kind: EArr, T: boolT.ArrayOf(), Elems: seen}, false})
	p.Pipelines = []*PipelineDef{leaf}
	prev := leaf
	for lv := depth - 1; lv >= 1; lv-- {
		pl := &PipelineDef{Name: fmt.Sprintf("LEVEL%d", lv), Ins: ins, Outs: prev.Outs}
		c := &CallDef{Callee: prev.Name, Id: prev.Name, Disabled: self(fmt.Sprintf("lv%d", lv))}
		for _, f := range ins {
			c.Binds = append(c.Binds, Bind{f.Name, self(f.Name), false})
		}
		pl.Calls = []*CallDef{c}
		for _, o := range prev.Outs {
			pl.Ret = append(pl.Ret, Bind{o.Name, ref(prev.Name, o.Name), false})
		}
		p.Pipelines = append(p.Pipelines, pl)
		prev = pl
	}
	top := &PipelineDef{Name: "TOPDD", Ins: []Field{{"k", intT}}, Outs: prev.Outs}
	for i, f := range flagNames {
		// enclosing flags are mostly false so that the inner calls are reached
		seedv := plan.Draw(40)
		top.Calls = append(top.Calls, &CallDef{Callee: "FLAG", Id: "F_" + f, Binds: []Bind{{"seed", lit(i*100 + seedv), false}}})
	}
	c := &CallDef{Callee: prev.Name, Id: prev.Name, Disabled: ref("F_lv0", "on")}
	for _, f := range flagNames {
		c.Binds = append(c.Binds, Bind{f, ref("F_"+f, "on"), false})
	}
	c.Binds = append(c.Binds, Bind{"k", self("k"), false})
	top.Calls = append(top.Calls, c)
	for _, o := range prev.Outs {
		top.Ret = append(top.Ret, Bind{o.Name, ref(prev.Name, o.Name), false})
	}
	p.Pipelines = append(p.Pipelines, top)
	p.Top = &CallDef{Callee: "TOPDD", Id: "TOPDD", Binds: []Bind{{"k", lit(plan.Draw(99)), false}}}
	return p
}

func templateDisabledProg(plan *Tape) *Prog {
	p := &Prog{}
	intT, boolT, strT := Ty{Base: "int"}, Ty{Base: "bool"}, Ty{Base: "string"}
	ref := func(call string, path ...string) *Expr { return &Expr{Kind: ERef, Call: call, Path: path} }
	self := func(path ...string) *Expr { return &Expr{Kind: ERef, Self: true, Path: path} }
	lit := func(v int) *Expr { return &Expr{Kind: ELit, Val: int64(v), T: intT} }
	p.Stages = []*StageDef{
		{Name: "FLAG", SrcKind: "comp", Ins: []Field{{"seed", intT}}, Outs: []Field{{"on", boolT}, {"n", intT}}},
		{Name: "SRC", SrcKind: "comp", Ins: []Field{{"k", intT}}, Outs: []Field{{"payload", strT}, {"num", intT}}},
		{Name: "WORK", SrcKind: "comp", Ins: []Field{{"s", strT}}, Outs: []Field{{"res", strT}}},
		{Name: "SINK", SrcKind: "comp", Ins: []Field{{"a", strT}, {"b", strT}, {"c", intT}}, Outs: []Field{{"done", intT}}},
	}
	inner := &PipelineDef{Name: "INNER", Ins: []Field{{"x", strT}, {"m", intT}},
		Outs: []Field{{"pass", strT}, {"made", strT}, {"m", intT}}}
	inner.Calls = []*CallDef{{Callee: "WORK", Id: "WORK", Binds: []Bind{{"s", self("x"), false}}}}
	inner.Ret = []Bind{{"pass", self("x"), false}, {"made", ref("WORK", "res"), false}, {"m", self("m"), false}}
	mid := inner
	p.Pipelines = []*PipelineDef{inner}
	if plan.Draw(2) == 0 {
		// one more level of pass-through nesting
		mid = &PipelineDef{Name: "MID", Ins: []Field{{"x", strT}, {"m", intT}, {"off", boolT}},
			Outs: []Field{{"pass", strT}, {"made", strT}, {"m", intT}}}
		ic := &CallDef{Callee: "INNER", Id: "INNER", Binds: []Bind{{"x", self("x"), false}, {"m", self("m"), false}}}
		if plan.Draw(2) == 0 {
			ic.Disabled = self("off")
		}
		mid.Calls = []*CallDef{ic}
		if ic.Disabled == nil {
			mid.Ins = mid.Ins[:2]
		}
		mid.Ret = []Bind{{"pass", ref("INNER", "pass"), false}, {"made", ref("INNER", "made"), false}, {"m", self("m"), false}}
		p.Pipelines = append(p.Pipelines, mid)
	}
	top := &PipelineDef{Name: "TOPD", Ins: []Field{{"n", intT}}}
	fa := &CallDef{Callee: "FLAG", Id: "FLAG_A", Binds: []Bind{{"seed", lit(plan.Draw(50)), false}}}
	fb := &CallDef{Callee: "FLAG", Id: "FLAG_B", Binds: []Bind{{"seed", lit(50 + plan.Draw(50)), false}}}
	src := &CallDef{Callee: "SRC", Id: "SRC", Binds: []Bind{{"k", self("n"), false}}}
	if plan.Draw(3) > 0 {
		src.Disabled = ref("FLAG_B", "on")
	}
	mc := &CallDef{Callee: mid.Name, Id: mid.Name, Binds: []Bind{{"x", ref("SRC", "payload"), false}, {"m", ref("SRC", "num"), false}}}
	if len(mid.Ins) == 3 {
		mc.Binds = append(mc.Binds, Bind{"off", ref("FLAG_B", "on"), false})
	}
	if plan.Draw(4) > 0 {
		mc.Disabled = ref("FLAG_A", "on")
	}
	sink := &CallDef{Callee: "SINK", Id: "SINK", Binds: []Bind{
		{"a", ref(mid.Name, "pass"), false}, {"b", ref(mid.Name, "made"), false}, {"c", ref(mid.Name, "m"), false}}}
	if plan.Draw(3) == 0 {
		sink.Disabled = ref("FLAG_B", "on")
	}
	top.Calls = []*CallDef{fa, fb, src, mc, sink}
	top.Outs = []Field{{"pass", strT}, {"made", strT}, {"done", intT}, {"flags", boolT.ArrayOf()}}
	top.Ret = []Bind{{"pass", ref(mid.Name, "pass"), false}, {"made", ref(mid.Name, "made"), false},
		{"done", ref("SINK", "done"), false},
		{"flags", &Expr{Kind: EArr, T: boolT.ArrayOf(), Elems: []*Expr{ref("FLAG_A", "on"), ref("FLAG_B", "on")}}, false}}
	p.Pipelines = append(p.Pipelines, top)
	p.Top = &CallDef{Callee: "TOPD", Id: "TOPD", Binds: []Bind{{"n", lit(plan.Draw(9)), false}}}
	return p
}

// templateMixedFlagsProg: a pipeline map-called over literal collections which mix
// constants with references to stage outputs; inside it a call disabled by the mapped
// flag.  The element decides per fork whether the call runs (C03): a literal "false"
// next to a reference that turns out true, and the other way round.
func templateMixedFlagsProg(plan *Tape) *Prog {
	p := &Prog{}
	intT, boolT := Ty{Base: "int"}, Ty{Base: "bool"}
	ref := func(call string, path ...string) *Expr { return &Expr{Kind: ERef, Call: call, Path: path} }
	self := func(path ...string) *Expr { return &Expr{Kind: ERef, Self: true, Path: path} }
	lit := func(v interface{}, t Ty) *Expr { return &Expr{Kind: ELit, Val: v, T: t} }
	p.Stages = []*StageDef{
		{Name: "FLAG", SrcKind: "comp", Ins: []Field{{"seed", intT}}, Outs: []Field{{"on", boolT}}},
		{Name: "WORK", SrcKind: "comp", Ins: []Field{{"k", intT}}, Outs: []Field{{"res", intT}}},
	}
	gated := &PipelineDef{Name: "GATED", Ins: []Field{{"flag", boolT}, {"x", intT}}, Outs: []Field{{"res", intT}, {"x", intT}}}
	gated.Calls = []*CallDef{{Callee: "WORK", Id: "WORK", Binds: []Bind{{"k", self("x"), false}}, Disabled: self("flag")}}
	gated.Ret = []Bind{{"res", ref("WORK", "res"), false}, {"x", self("x"), false}}
	top := &PipelineDef{Name: "TOPM", Ins: []Field{{"n", intT}}}
	nflags := 1 + plan.Draw(3)
	for i := 0; i < nflags; i++ {
		seed := lit(int64(plan.Draw(60)+100*i), intT)
		if i == 0 {
			seed = self("n") // (MRO rejects pipeline inputs that nothing uses)
		}
		top.Calls = append(top.Calls, &CallDef{Callee: "FLAG", Id: fmt.Sprintf("FLAG_%d", i), Binds: []Bind{{"seed", seed, false}}})
	}
	n := 2 + plan.Draw(4)
	byKey := plan.Draw(2) == 0
	var flagEls, xEls []*Expr
	var keys []string
	for i := 0; i < n; i++ {
		switch plan.Draw(4) {
		case 0:
			flagEls = append(flagEls, lit(true, boolT))
		case 1, 2:
			flagEls = append(flagEls, lit(false, boolT))
		default:
			flagEls = append(flagEls, ref(fmt.Sprintf("FLAG_%d", plan.Draw(nflags)), "on"))
		}
		xEls = append(xEls, lit(int64(10*i+plan.Draw(9)), intT))
		keys = append(keys, fmt.Sprintf("key%d", i))
	}
	// at least one reference, so that the flags are not all known at compile time
	flagEls[plan.Draw(n)] = ref(fmt.Sprintf("FLAG_%d", plan.Draw(nflags)), "on")
	c := &CallDef{Callee: "GATED", Id: "GATED", Mapped: true}
	if byKey {
		c.Binds = []Bind{{"flag", &Expr{Kind: EMap, T: boolT.MapOf(), Elems: flagEls, Keys: keys}, true},
			{"x", &Expr{Kind: EMap, T: intT.MapOf(), Elems: xEls, Keys: keys}, true}}
		top.Outs = []Field{{"res", intT.MapOf()}, {"xs", intT.MapOf()}}
	} else {
		c.Binds = []Bind{{"flag", &Expr{Kind: EArr, T: boolT.ArrayOf(), Elems: flagEls}, true},
			{"x", &Expr{Kind: EArr, T: intT.ArrayOf(), Elems: xEls}, true}}
		top.Outs = []Field{{"res", intT.ArrayOf()}, {"xs", intT.ArrayOf()}}
	}
	top.Calls = append(top.Calls, c)
	top.Ret = []Bind{{"res", ref("GATED", "res"), false}, {"xs", ref("GATED", "x"), false}}
	p.Pipelines = []*PipelineDef{gated, top}
	p.Top = &CallDef{Callee: "TOPM", Id: "TOPM", Binds: []Bind{{"n", lit(int64(plan.Draw(99)), intT), false}}}
	return p
}
