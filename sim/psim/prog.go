package psim

import (
	"fmt"
	"sort"
	"strconv"
	"strings"
)

// ---------------------------------------------------------------------------
// Program model.  Programs are generated as values of this model; the MRO text
// handed to mrp is a rendering of it, and the reference evaluator (eval.go)
// interprets the model directly.  Nothing of martian's parser, compiler or
// resolver is involved on the oracle side.
// ---------------------------------------------------------------------------

// Ty is an MRO type: Base with container dimensions, outermost first.
// 'a' = array, 'm' = typed map.  MRO permits a*  m?  a*.
type Ty struct {
	Base string
	Dims string
}

func (t Ty) String() string {
	// innermost arrays (after m) are written inside map<...>
	i := strings.IndexByte(t.Dims, 'm')
	if i < 0 {
		return t.Base + strings.Repeat("[]", len(t.Dims))
	}
	inner := len(t.Dims) - i - 1
	return "map<" + t.Base + strings.Repeat("[]", inner) + ">" + strings.Repeat("[]", i)
}

func (t Ty) IsContainer() bool { return t.Dims != "" }
func (t Ty) Elem() Ty          { return Ty{t.Base, t.Dims[1:]} }
func (t Ty) ArrayOf() Ty       { return Ty{t.Base, "a" + t.Dims} }
func (t Ty) MapOf() Ty         { return Ty{t.Base, "m" + t.Dims} }
func (t Ty) CanMapOf() bool    { return !strings.Contains(t.Dims, "m") }

type Field struct {
	Name string
	T    Ty
}

type StructDef struct {
	Name   string
	Fields []Field
}

type StageDef struct {
	Name      string
	Ins       []Field
	Outs      []Field
	Split     bool
	ChunkIns  []Field
	ChunkOuts []Field
	SrcKind   string // "comp" (runs under the job monitor) or "exec" (direct)
	Threads   float64
	MemGB     float64
	VMemGB float64
	Volatile  string // "", "strict", "false"
	Retain    []string
}

type ExprKind int

const (
	ELit ExprKind = iota
	ERef
	EArr
	EMap    // typed map literal
	EStruct // struct literal
)

type Expr struct {
	Kind ExprKind
	// ELit: a JSON-like value (nil, bool, int64, float64, string, []interface{},
	// *OMap) and its type.
	Val interface{}
	T   Ty
	// ERef: self.<Path...> or <Call>.<Path...> (Path may be empty for a whole call)
	Self bool
	Call string
	Path []string
	// EArr: Elems; EMap/EStruct: Keys+Elems
	Elems []*Expr
	Keys  []string
}

type Bind struct {
	Param string
	E     *Expr
	Split bool
}

type CallDef struct {
	Callee    string
	Id        string
	Binds     []Bind
	Mapped    bool
	Disabled  *Expr // a reference of type bool
	Local     bool
	Preflight bool
	Volatile  bool
}

type PipelineDef struct {
	Name   string
	Ins    []Field
	Outs   []Field
	Calls  []*CallDef
	Ret    []Bind
	Retain []*Expr // refs to call outputs
}

type Prog struct {
	NestedChain bool // a map call over a sibling map call inside a map-called pipeline (KF-C01-2)
	StaticRagged bool // nested map call over a literal array of arrays of different lengths
	ArrayOfMaps bool // holds the nested map call over an array of typed maps (KF-C03-2)
	NameClash bool // an explicit output name equals a later output\'s default name (the compiler should refuse)
	NullOuts map[string]bool // "STAGE.out": the stage always returns null for it
	FileTypes []string
	Structs   []*StructDef
	Stages    []*StageDef
	Pipelines []*PipelineDef
	Top       *CallDef // call of the last pipeline with literal arguments
	// OutNames / Helps: explicit output file names and help texts of out parameters
	// and struct fields, keyed "OWNER.param" (OWNER = stage, pipeline or struct name)
	OutNames map[string]string
	Helps    map[string]string
}

func (p *Prog) Stage(name string) *StageDef {
	for _, s := range p.Stages {
		if s.Name == name {
			return s
		}
	}
	return nil
}

func (p *Prog) Pipeline(name string) *PipelineDef {
	for _, s := range p.Pipelines {
		if s.Name == name {
			return s
		}
	}
	return nil
}

func (p *Prog) Struct(name string) *StructDef {
	for _, s := range p.Structs {
		if s.Name == name {
			return s
		}
	}
	return nil
}

func (p *Prog) IsFileType(base string) bool {
	if base == "file" || base == "path" {
		return true
	}
	for _, f := range p.FileTypes {
		if f == base {
			return true
		}
	}
	return false
}

// CalleeSig returns the in and out parameters of a callable.
func (p *Prog) CalleeSig(name string) (ins, outs []Field, isStage bool) {
	if s := p.Stage(name); s != nil {
		return s.Ins, s.Outs, true
	}
	if pl := p.Pipeline(name); pl != nil {
		return pl.Ins, pl.Outs, false
	}
	panic("unknown callable " + name)
}

// OMap is an ordered JSON object (keeps literal key order for rendering).
type OMap struct {
	Keys []string
	Vals map[string]interface{}
}

func NewOMap() *OMap { return &OMap{Vals: map[string]interface{}{}} }
func (m *OMap) Set(k string, v interface{}) {
	if _, ok := m.Vals[k]; !ok {
		m.Keys = append(m.Keys, k)
	}
	m.Vals[k] = v
}

// ---------------------------------------------------------------------------
// Rendering to MRO source.
// ---------------------------------------------------------------------------

func mroString(s string) string {
	// MRO string literals are JSON-style.
	var b strings.Builder
	b.WriteByte('"')
	for _, r := range s {
		switch r {
		case '"':
			b.WriteString(`\"`)
		case '\\':
			b.WriteString(`\\`)
		case '\n':
			b.WriteString(`\n`)
		case '\t':
			b.WriteString(`\t`)
		case '\r':
			b.WriteString(`\r`)
		default:
			if r < 0x20 {
				fmt.Fprintf(&b, `\u%04x`, r)
			} else {
				b.WriteRune(r)
			}
		}
	}
	b.WriteByte('"')
	return b.String()
}

func (p *Prog) renderVal(b *strings.Builder, v interface{}, t Ty) {
	switch x := v.(type) {
	case nil:
		b.WriteString("null")
	case bool:
		b.WriteString(strconv.FormatBool(x))
	case int64:
		b.WriteString(strconv.FormatInt(x, 10))
	case int:
		b.WriteString(strconv.Itoa(x))
	case float64:
		s := strconv.FormatFloat(x, 'g', -1, 64)
		if !strings.ContainsAny(s, ".e") {
			s += ".0"
		}
		b.WriteString(s)
	case string:
		b.WriteString(mroString(x))
	case []interface{}:
		b.WriteString("[")
		for i, e := range x {
			if i > 0 {
				b.WriteString(", ")
			}
			p.renderVal(b, e, t.Elem())
		}
		b.WriteString("]")
	case *OMap:
		isStruct := t.Dims == "" && p.Struct(t.Base) != nil
		b.WriteString("{")
		for i, k := range x.Keys {
			if i > 0 {
				b.WriteString(", ")
			}
			if isStruct {
				b.WriteString(k)
				b.WriteString(": ")
				var ft Ty
				for _, f := range p.Struct(t.Base).Fields {
					if f.Name == k {
						ft = f.T
					}
				}
				p.renderVal(b, x.Vals[k], ft)
			} else {
				b.WriteString(mroString(k))
				b.WriteString(": ")
				et := t
				if t.Dims != "" {
					et = t.Elem()
				}
				p.renderVal(b, x.Vals[k], et)
			}
		}
		b.WriteString("}")
	default:
		panic(fmt.Sprintf("renderVal: %T", v))
	}
}

func (p *Prog) renderExpr(b *strings.Builder, e *Expr) {
	switch e.Kind {
	case ELit:
		p.renderVal(b, e.Val, e.T)
	case ERef:
		if e.Self {
			b.WriteString("self")
		} else {
			b.WriteString(e.Call)
		}
		for _, s := range e.Path {
			b.WriteString(".")
			b.WriteString(s)
		}
	case EArr:
		b.WriteString("[")
		for i, x := range e.Elems {
			if i > 0 {
				b.WriteString(", ")
			}
			p.renderExpr(b, x)
		}
		b.WriteString("]")
	case EMap:
		b.WriteString("{")
		for i, x := range e.Elems {
			if i > 0 {
				b.WriteString(", ")
			}
			b.WriteString(mroString(e.Keys[i]))
			b.WriteString(": ")
			p.renderExpr(b, x)
		}
		b.WriteString("}")
	case EStruct:
		b.WriteString("{")
		for i, x := range e.Elems {
			if i > 0 {
				b.WriteString(", ")
			}
			b.WriteString(e.Keys[i])
			b.WriteString(": ")
			p.renderExpr(b, x)
		}
		b.WriteString("}")
	}
}

func (p *Prog) renderParams(b *strings.Builder, kind, owner string, fs []Field) {
	for _, f := range fs {
		fmt.Fprintf(b, "    %s %s %s%s,\n", kind, f.T.String(), f.Name, p.helpAndOutName(owner, f.Name))
	}
}

// helpAndOutName renders the optional help text and output file name of an out
// parameter or struct field.
func (p *Prog) helpAndOutName(owner, name string) string {
	key := owner + "." + name
	help, hasHelp := p.Helps[key]
	out, hasOut := p.OutNames[key]
	if !hasHelp && !hasOut {
		return ""
	}
	s := " " + mroString(help)
	if hasOut {
		s += " " + mroString(out)
	}
	return s
}

func (p *Prog) renderCall(b *strings.Builder, c *CallDef, indent string, top bool) {
	b.WriteString(indent)
	if c.Mapped {
		b.WriteString("map ")
	}
	b.WriteString("call " + c.Callee)
	if c.Id != "" && c.Id != c.Callee {
		b.WriteString(" as " + c.Id)
	}
	b.WriteString("(\n")
	for _, bd := range c.Binds {
		b.WriteString(indent + "    " + bd.Param + " = ")
		if bd.Split {
			b.WriteString("split ")
		}
		p.renderExpr(b, bd.E)
		b.WriteString(",\n")
	}
	b.WriteString(indent + ")")
	var mods []string
	if c.Disabled != nil {
		var mb strings.Builder
		p.renderExpr(&mb, c.Disabled)
		mods = append(mods, "disabled = "+mb.String())
	}
	if c.Local {
		mods = append(mods, "local = true")
	}
	if c.Preflight {
		mods = append(mods, "preflight = true")
	}
	if c.Volatile {
		mods = append(mods, "volatile = true")
	}
	if len(mods) > 0 {
		b.WriteString(" using (\n")
		for _, m := range mods {
			b.WriteString(indent + "    " + m + ",\n")
		}
		b.WriteString(indent + ")")
	}
	b.WriteString("\n")
}

// Render returns the MRO source for the declarations, and separately the top-level
// call statement.
func (p *Prog) Render() (decls string, call string) {
	var b strings.Builder
	for _, f := range p.FileTypes {
		fmt.Fprintf(&b, "filetype %s;\n", f)
	}
	b.WriteString("\n")
	for _, s := range p.Structs {
		fmt.Fprintf(&b, "struct %s(\n", s.Name)
		for _, f := range s.Fields {
			fmt.Fprintf(&b, "    %s %s%s,\n", f.T.String(), f.Name, p.helpAndOutName(s.Name, f.Name))
		}
		b.WriteString(")\n\n")
	}
	for _, s := range p.Stages {
		fmt.Fprintf(&b, "stage %s(\n", s.Name)
		p.renderParams(&b, "in ", "", s.Ins)
		p.renderParams(&b, "out", s.Name, s.Outs)
		fmt.Fprintf(&b, "    src %s %s,\n", s.SrcKind, mroString("stagebin "+s.Name))
		b.WriteString(")")
		if s.Split {
			b.WriteString(" split (\n")
			p.renderParams(&b, "in ", "", s.ChunkIns)
			p.renderParams(&b, "out", "", s.ChunkOuts)
			b.WriteString(")")
		}
		var res []string
		if s.Threads != 0 {
			res = append(res, "threads = "+strconv.FormatFloat(s.Threads, 'g', -1, 64))
		}
		if s.MemGB != 0 {
			res = append(res, "mem_gb = "+strconv.FormatFloat(s.MemGB, 'g', -1, 64))
		}
		if s.VMemGB != 0 {
			res = append(res, "vmem_gb = "+strconv.FormatFloat(s.VMemGB, 'g', -1, 64))
		}
		if s.Volatile != "" {
			res = append(res, "volatile = "+s.Volatile)
		}
		if len(res) > 0 {
			b.WriteString(" using (\n")
			for _, r := range res {
				b.WriteString("    " + r + ",\n")
			}
			b.WriteString(")")
		}
		if len(s.Retain) > 0 {
			b.WriteString(" retain (\n")
			for _, r := range s.Retain {
				b.WriteString("    " + r + ",\n")
			}
			b.WriteString(")")
		}
		b.WriteString("\n\n")
	}
	for _, pl := range p.Pipelines {
		fmt.Fprintf(&b, "pipeline %s(\n", pl.Name)
		p.renderParams(&b, "in ", "", pl.Ins)
		p.renderParams(&b, "out", pl.Name, pl.Outs)
		b.WriteString(")\n{\n")
		for _, c := range pl.Calls {
			p.renderCall(&b, c, "    ", false)
			b.WriteString("\n")
		}
		b.WriteString("    return (\n")
		for _, r := range pl.Ret {
			b.WriteString("        " + r.Param + " = ")
			p.renderExpr(&b, r.E)
			b.WriteString(",\n")
		}
		b.WriteString("    )")
		if len(pl.Retain) > 0 {
			b.WriteString("\n\n    retain (\n")
			for _, r := range pl.Retain {
				b.WriteString("        ")
				p.renderExpr(&b, r)
				b.WriteString(",\n")
			}
			b.WriteString("    )")
		}
		b.WriteString("\n}\n\n")
	}
	var cb strings.Builder
	p.renderCall(&cb, p.Top, "", true)
	return b.String(), cb.String()
}

// Source returns the complete single-file program.
func (p *Prog) Source() string {
	d, c := p.Render()
	return d + c
}

func sortedKeys(m map[string]interface{}) []string {
	ks := make([]string, 0, len(m))
	for k := range m {
		ks = append(ks, k)
	}
	sort.Strings(ks)
	return ks
}
