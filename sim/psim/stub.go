package psim

import (
	"encoding/json"
	"fmt"
	"io"
	"os"
	"path"
	"path/filepath"
	"regexp"
	"strings"
	"syscall"
	"time"

	"github.com/martian-lang/martian/martian/core"
	"github.com/martian-lang/martian/martian/verifsim/vos"
	"github.com/martian-lang/martian/martian/verifsim/vproc"
	"github.com/martian-lang/martian/martian/verifsim/vrt"
)

// ---------------------------------------------------------------------------
// Job process stub.  It stands for mrjob (the job monitor) + adapter + stage
// code, or for a directly exec'ed stage.  It performs the same filesystem
// effects in the same order as cmd/mrjob/mrjob.go, through the exported
// core.Metadata API that mrjob itself uses (instrumented, so each effect is a
// gate, a crash point and a history event).  The stage's behaviour is F.
// ---------------------------------------------------------------------------

// JobRec records one job process.
type JobRec struct {
	Pid          int         `json:"pid"`
	Inc          int         `json:"inc"`   // mrp incarnation that started it
	Stage        string      `json:"stage"` // stage name
	Node         string      `json:"node"`  // path of the call relative to the pipestance, e.g. TOP/SUB/STAGE
	Fork         string      `json:"fork"`  // fork directory name
	Phase        string      `json:"phase"` // split, main, join
	Chunk        int         `json:"chunk"` // -1 unless main
	Leaf         string      `json:"leaf"`  // split, join, chnkN (without uniquifier)
	Uniq         string      `json:"uniq,omitempty"`
	Monitor      bool        `json:"monitor"`
	MetaPath     string      `json:"-"`
	FilesPath    string      `json:"-"`
	RunFile      string      `json:"-"`
	StartSeq     int         `json:"start_seq"`
	EndSeq       int         `json:"end_seq,omitempty"`
	ArgsSeq      int         `json:"args_seq,omitempty"`
	Args         interface{} `json:"args,omitempty"`
	ChunkDefs    interface{} `json:"chunk_defs,omitempty"`
	ChunkOuts    interface{} `json:"chunk_outs,omitempty"`
	Outs         interface{} `json:"outs,omitempty"`
	Outcome      string      `json:"outcome,omitempty"` // complete, failed:<kind>, killed, aborted
	Fault        string      `json:"fault,omitempty"`
	ClusterId    string      `json:"cluster_id,omitempty"`
	Stale        bool        `json:"stale,omitempty"` // an attempt which went silent, was given up by mrp, and came back
	Threads      float64     `json:"threads,omitempty"`
	MemGB        float64     `json:"mem_gb,omitempty"`
	JobType      string      `json:"job_type,omitempty"`
	VMemGB float64 `json:"vmem_gb,omitempty"`
	MissingFiles []string    `json:"missing_files,omitempty"`
	Wrote        []string    `json:"-"`
	proc         *vrt.Proc
	aborted      bool
	StartAt      time.Duration `json:"-"` // simulated time at which the job process started
	finishing    bool
	sleeping     bool // inside the long computation of a "slow" job
	md           *core.Metadata
}

func (j *JobRec) Key() string {
	return j.Node + "/" + j.Fork + "/" + j.Leaf
}

// Id identifies the job independently of how its directory is spelled (chunk
// index instead of the padded chunk directory name).
func (j *JobRec) Id() string {
	return fmt.Sprintf("%s/%s/%s/%d", j.Node, j.Fork, j.Phase, j.Chunk)
}

var uniqSuffix = regexp.MustCompile(`-u([a-f0-9]{10})$`)

// identify fills the identity fields of a job record from the command line that
// the job manager built.
func (r *Run) identify(j *JobRec, c *vproc.Cmd) error {
	a := c.Args
	if len(a) < 5 {
		return fmt.Errorf("job command line too short: %v", a)
	}
	n := len(a)
	j.Phase, j.MetaPath, j.FilesPath, j.RunFile = a[n-4], a[n-3], a[n-2], a[n-1]
	j.Monitor = path.Base(c.Path) == "mrjob"
	// stage name: the argument after "stagebin"
	for i, s := range a {
		if path.Base(s) == "stagebin" && i+1 < n {
			j.Stage = a[i+1]
		}
	}
	if path.Base(c.Path) == "stagebin" && len(a) > 1 {
		j.Stage = a[1]
	}
	rel := strings.TrimPrefix(j.MetaPath, r.PsDir+"/")
	parts := strings.Split(rel, "/")
	if len(parts) < 3 {
		return fmt.Errorf("unexpected metadata path %s", j.MetaPath)
	}
	leaf := parts[len(parts)-1]
	if m := uniqSuffix.FindStringSubmatch(leaf); m != nil {
		j.Uniq = m[1]
		leaf = leaf[:len(leaf)-len(m[0])]
	}
	j.Leaf = leaf
	j.Chunk = -1
	if strings.HasPrefix(leaf, "chnk") {
		fmt.Sscanf(leaf[4:], "%d", &j.Chunk)
	}
	// fork directory: the last path element starting with "fork" before the leaf;
	// nested fork ids contain '/', so take everything after the node path.
	fi := -1
	for i := 0; i < len(parts)-1; i++ {
		if strings.HasPrefix(parts[i], "fork") {
			fi = i
			break
		}
	}
	if fi < 0 {
		return fmt.Errorf("no fork directory in %s", j.MetaPath)
	}
	j.Node = strings.Join(parts[:fi], "/")
	j.Fork = strings.Join(parts[fi:len(parts)-1], "/")
	return nil
}

// launch is vproc's Launch hook.
func (r *Run) launch(p *vrt.Proc, c *vproc.Cmd) func() int {
	base := path.Base(c.Path)
	switch base {
	case "mrjob", "stagebin":
		j := &JobRec{Pid: p.Pid, Inc: r.Inc, proc: p}
		if err := r.identify(j, c); err != nil {
			r.violate("SIM", "stub", err.Error())
			return nil
		}
		p.Name = "job:" + j.Key() + ":" + j.Phase + "#" + fmt.Sprint(r.attemptNo(j))
		j.StartSeq = vos.NextSeq()
		r.Jobs = append(r.Jobs, j)
		vproc.Info(p).User = j
		vproc.Info(p).OnSignal = func(sig syscall.Signal) { r.jobSignal(j, sig) }
		if r.OnJobStart != nil {
			r.OnJobStart(j)
		}
		return func() int { return r.jobMain(j) }
	case "qsub":
		return func() int { return r.clusterSubmit(p, c) }
	case "sge_queue.py":
		return func() int { return r.clusterQuery(c) }
	}
	if r.ExtraLaunch != nil {
		return r.ExtraLaunch(p, c)
	}
	return nil
}

// ---- simulated cluster scheduler ----------------------------------------

// parseJobScript extracts the command line (after the environment assignments)
// from a job script made from the sge template: the command is the last block,
// one shell-quoted word per continuation line.
func parseJobScript(script string) []string {
	lines := strings.Split(strings.TrimRight(script, "\n"), "\n")
	// the command block starts after the last line which is not a continuation
	start := len(lines) - 1
	for start > 0 && strings.HasSuffix(lines[start-1], " \\") {
		start--
	}
	var words []string
	for _, l := range lines[start:] {
		w := strings.TrimSpace(strings.TrimSuffix(strings.TrimSpace(l), "\\"))
		if w == "" {
			continue
		}
		if strings.HasPrefix(w, "\"") && strings.HasSuffix(w, "\"") && len(w) >= 2 {
			u := w[1 : len(w)-1]
			u = strings.NewReplacer("\\\\", "\\", "\\\"", "\"", "\\$", "$").Replace(u)
			words = append(words, u)
		} else if i := strings.Index(w, "="); i > 0 && !strings.HasPrefix(w, "/") && len(words) == 0 {
			continue // environment assignment
		} else {
			words = append(words, w)
		}
	}
	return words
}

func (r *Run) clusterSubmit(p *vrt.Proc, c *vproc.Cmd) int {
	var script []byte
	if c.Stdin != nil {
		script, _ = io.ReadAll(c.Stdin)
	}
	argv := parseJobScript(string(script))
	if len(argv) < 5 {
		fmt.Fprintf(c.Stderr, "qsub: cannot parse job script\n")
		r.violate("SIM", "stub", "cluster submit: unparseable job script: "+clip(string(script), 300))
		return 1
	}
	cj := &ClusterJob{Id: fmt.Sprintf("%d", 9000+len(r.Cluster)), Inc: r.Inc, SubmitSeq: vos.NextSeq()}
	r.Cluster = append(r.Cluster, cj)
	r.Faults["cluster-job-submitted"]++
	// the scheduler starts the job some time later, as a process of its own: it
	// is not a child of mrp and survives it
	delay := time.Duration(1+hash64(r.FCfg.Salt, cj.Id, "qdelay")%20) * time.Second
	jc := &vproc.Cmd{Path: argv[0], Args: argv, Dir: c.Dir}
	jp := vproc.NewProc("job", argv[0], argv, nil, c.Dir, nil)
	j := &JobRec{Pid: jp.Pid, Inc: r.Inc, proc: jp, ClusterId: cj.Id}
	if err := r.identify(j, jc); err != nil {
		r.violate("SIM", "stub", "cluster job: "+err.Error())
		return 1
	}
	jp.Name = "cjob:" + j.Key() + ":" + j.Phase + "#" + cj.Id
	vproc.Info(jp).User = j
	vproc.Info(jp).OnSignal = func(sig syscall.Signal) { r.jobSignal(j, sig) }
	cj.Proc = jp
	vproc.StartProc(jp, func() int {
		vrt.Sleep(delay)
		if _, err := os.Stat(j.MetaPath); err != nil {
			// the job's directory is gone: mrp was restarted and reset this
			// attempt while it sat in the queue; the job script fails at once
			// without touching anything
			r.Faults["cluster-job-started-after-its-attempt-was-reset"]++
			return 1
		}
		j.StartSeq = vos.NextSeq()
		r.Jobs = append(r.Jobs, j)
		cj.Rec = j
		if r.OnJobStart != nil {
			r.OnJobStart(j)
		}
		return r.jobMain(j)
	})
	fmt.Fprintf(c.Stdout, "%s\n", cj.Id)
	return 0
}

func (r *Run) clusterQuery(c *vproc.Cmd) int {
	var in []byte
	if c.Stdin != nil {
		in, _ = io.ReadAll(c.Stdin)
	}
	for _, id := range strings.Fields(string(in)) {
		for _, cj := range r.Cluster {
			if cj.Id == id && cj.Live() {
				fmt.Fprintf(c.Stdout, "%s\n", id)
			}
		}
	}
	r.Faults["cluster-queue-queried"]++
	return 0
}

func (r *Run) attemptNo(j *JobRec) int {
	n := 0
	for _, o := range r.Jobs {
		if o.Key() == j.Key() && o.Phase == j.Phase {
			n++
		}
	}
	return n
}

// check stops the job's main task for good if the job was aborted by a signal.
func (j *JobRec) check() {
	if j.aborted {
		select {}
	}
}

func (r *Run) jobSignal(j *JobRec, sig syscall.Signal) {
	if j.proc.Exited || j.proc.Dead {
		return
	}
	if !j.Monitor || sig == syscall.SIGKILL {
		// a directly exec'ed stage has no handler: it dies.  (A job which had already
		// recorded its completion keeps that outcome: the record is on disk.)
		if j.Outcome != "complete" {
			j.Outcome = "killed"
			j.EndSeq = vos.NextSeq()
		}
		vproc.Finish(j.proc, -1, sig)
		return
	}
	if j.finishing || j.aborted {
		// the monitor is inside its completion critical section: the handler
		// waits for it and the process exits from there.
		return
	}
	j.aborted = true
	// The monitor's signal handler: kill the stage code, final jobinfo, _errors,
	// journal, exit 1.
	vrt.Go(j.proc.Name+"/sighandler", j.proc, func() {
		md := j.md
		if md == nil {
			md = core.NewMetadataRunWithJournalPath(path.Base(j.RunFile), j.MetaPath,
				j.FilesPath, path.Dir(j.RunFile), j.Phase)
		}
		var ji core.JobInfo
		if md.ReadInto(core.JobInfoFile, &ji) == nil {
			if md.WriteAtomic(core.JobInfoFile, &ji) == nil {
				md.UpdateJournal(core.JobInfoFile)
			}
		}
		md.WriteRaw(core.Errors, fmt.Sprintf("Caught signal %v", sig))
		md.UpdateJournal(core.Errors)
		j.Outcome = "aborted"
		j.EndSeq = vos.NextSeq()
		vproc.Finish(j.proc, 1, 0)
		select {}
	})
}

// jobMain is the main task of a job process.
func (r *Run) jobMain(j *JobRec) int {
	j.StartAt = time.Since(r.Start)
	md := core.NewMetadataRunWithJournalPath(path.Base(j.RunFile), j.MetaPath,
		j.FilesPath, path.Dir(j.RunFile), j.Phase)
	j.md = md
	fault := r.jobFault(j)
	j.Fault = fault
	stale := strings.HasPrefix(fault, "stale-") && j.Monitor
	if strings.HasPrefix(fault, "stale-") && !stale {
		fault = ""
	}
	fc := r.FCfg
	st := r.Prog.Stage(j.Stage)
	if st == nil {
		r.violate("SIM", "stub", "job for unknown stage "+j.Stage)
		return 1
	}

	// --- monitor start-up (mrjob main/Init) ---
	var ji core.JobInfo
	if j.Monitor {
		if f, err := vos.OpenFile(md.MetadataFilePath(core.LogFile),
			os.O_WRONLY|os.O_CREATE|os.O_APPEND, 0644); err == nil {
			f.Close()
		}
		j.check()
		md.UpdateJournal(core.StdOut)
		j.check()
		md.UpdateJournal(core.StdErr)
		j.check()
	}
	if err := md.ReadInto(core.JobInfoFile, &ji); err == nil {
		j.Threads, j.MemGB, j.VMemGB, j.JobType = ji.Threads, ji.MemGB, ji.VMemGB, ji.Type
		ji.Pid = j.Pid
		ji.Cwd = j.FilesPath
		md.WriteAtomic(core.JobInfoFile, &ji)
		j.check()
	} else if j.Monitor {
		return r.jobFail(j, md, "errors", "Error reading jobInfo.\n\n"+err.Error()+"\n")
	}
	if !j.Monitor {
		md.WriteRaw(core.LogFile, "start\n")
		j.check()
	}
	md.UpdateJournal(core.LogFile)
	j.check()
	if j.Monitor && !stale && fault != "hang-silent" {
		r.startHeartbeat(j, md)
	}

	// --- stage code ---
	if fault == "hang" {
		// never finishes, never writes anything else (heartbeats continue
		// unless the whole process is stopped)
		select {}
	}
	if fault == "die-early" {
		j.Outcome = "killed"
		j.EndSeq = vos.NextSeq()
		vproc.Finish(j.proc, -1, syscall.SIGKILL)
		select {}
	}
	argsRaw, err := os.ReadFile(md.MetadataFilePath(core.ArgsFile))
	if err != nil {
		return r.jobFail(j, md, "errors", "could not read _args: "+err.Error())
	}
	j.ArgsSeq = vos.NextSeq()
	args, err := ParseJSON(argsRaw)
	if err != nil {
		return r.jobFail(j, md, "errors", "invalid _args: "+err.Error())
	}
	j.Args = args
	argMap, _ := args.(map[string]interface{})
	// join arguments come wrapped with the resources; strip "__"-prefixed keys for F.
	fargs, _ := r.normFiles(stripDunder(argMap)).(map[string]interface{})

	// Every file named in the arguments must exist now (C04).
	r.checkArgFiles(j, args)

	// Legal stage behaviour the VDR logic must cope with: all files of the job may
	// live in a sub-directory of files/ which the outputs name through a symlink
	// (files/current -> data_v1), and an output file may have an unreferenced
	// companion whose name extends its own (x, x.idx).
	linkDir := r.Cfg.LinkDirs && hash64(r.FCfg.Salt, j.Key(), j.Phase, "linkdir")%3 == 0
	files := func(name, content string) string {
		fname := sanitizeFileName(name)
		dir, logical := j.FilesPath, ""
		if linkDir {
			dir = path.Join(j.FilesPath, "data_v1")
			logical = path.Join(j.FilesPath, "current")
			if _, err := os.Lstat(logical); err != nil {
				vos.MkdirAll(dir, 0755)
				vos.Symlink("data_v1", logical)
				j.check()
				r.Faults["stage-output-through-symlinked-dir"]++
			}
		}
		if r.Cfg.SubDirs && !linkDir && hash64(r.FCfg.Salt, j.Key(), j.Phase, name, "subdir")%3 == 0 {
			// the output lives in a sub-directory of files/ whose name extends the name
			// of an unreferenced file (extra_unreferenced), next to unreferenced junk
			dir = path.Join(j.FilesPath, "extra_unreferenced_d")
			if _, err := os.Lstat(dir); err != nil {
				vos.MkdirAll(dir, 0755)
				j.check()
				jp := path.Join(dir, "junk")
				jc := fmt.Sprintf("junk|%s|%s", j.Key(), j.Phase)
				if vos.WriteFile(jp, []byte(jc), 0644) == nil {
					j.check()
					r.Files[jp] = &FileRec{Path: jp, Content: jc, Job: j, Seq: vos.NextSeq(), Extra: true}
				}
				r.Faults["stage-output-in-subdirectory-next-to-junk"]++
			}
		}
		p := path.Join(dir, fname)
		if r.Cfg.OutKinds {
			// C13: what a stage may legally leave behind for a file-typed output:
			// nothing at all, a symlink (relative, absolute, chained, or to a file
			// outside the pipestance), or the path of a file outside the pipestance
			if rp, done := r.outKind(j, p, name, content); done {
				return rp
			}
		}
		if r.Cfg.DirOutputs && !linkDir && hash64(r.FCfg.Salt, j.Key(), j.Phase, name, "dirout")%4 == 0 {
			// the output is a directory with two files in it
			vos.MkdirAll(p, 0755)
			j.check()
			for _, kid := range []string{"x", "y"} {
				kp := path.Join(p, kid)
				kc := content + "|" + kid
				if vos.WriteFile(kp, []byte(kc), 0644) == nil {
					j.check()
					j.Wrote = append(j.Wrote, kp)
					r.noteFile(j, kp, kc)
					r.Files[kp].InDir = p
					r.Dirs[p] = append(r.Dirs[p], kp)
				}
			}
			r.Faults["stage-output-is-a-directory"]++
			return p
		}
		if err := vos.WriteFile(p, []byte(content), 0644); err != nil {
			return p
		}
		j.check()
		j.Wrote = append(j.Wrote, p)
		r.noteFile(j, p, content)
		if r.Cfg.Companions && hash64(r.FCfg.Salt, j.Key(), j.Phase, name, "companion")%3 == 0 {
			cp := p + ".idx"
			cc := "idx|" + content
			if vos.WriteFile(cp, []byte(cc), 0644) == nil {
				j.check()
				r.Files[cp] = &FileRec{Path: cp, Content: cc, Job: j, Seq: vos.NextSeq(), Extra: true}
				if logical != "" {
					r.Files[cp].Logical = path.Join(logical, fname+".idx")
				}
				r.Faults["stage-output-with-companion-file"]++
			}
		}
		if logical != "" {
			lp := path.Join(logical, fname)
			r.Files[p].Logical = lp
			r.Logical[lp] = p
			return lp
		}
		if r.Cfg.CanonicalPaths && r.RealPs != "" && strings.HasPrefix(p, r.PsDir+"/") &&
			hash64(r.FCfg.Salt, j.Key(), j.Phase, name, "canonical")%2 == 0 {
			// the stage reports the physical path of its file (pwd -P, realpath)
			r.Faults["stage-reports-canonical-path"]++
			r.Files[p].Canonical = true
			return r.RealPs + p[len(r.PsDir):]
		}
		return p
	}
	r.extraFiles(j, fargs)

	if stale {
		// The attempt goes silent (no heartbeat, no progress) until mrp has given
		// up on it (heartbeat timeout) and has retried the job under a new
		// uniquifier, then comes back and finishes in
		// one of several ways.  Nothing it writes from now on may be attributed to
		// the attempt that replaced it (C11).
		gaveUp := false
		for i := 0; i < 45 && !gaveUp; i++ {
			vrt.Sleep(2 * time.Minute)
			j.check()
			// given up AND replaced: the retry removes the attempt's directory and
			// points the job's name at a directory with a new uniquifier (until
			// then an error the attempt reports is still its own)
			if _, err := os.Stat(j.MetaPath); err != nil {
				gaveUp = true
			} else if t, err := os.Readlink(path.Join(path.Dir(j.MetaPath), j.Leaf)); err == nil && t != path.Base(j.MetaPath) {
				gaveUp = true
			}
		}
		if !gaveUp {
			// mrp never gave up on it: it is just a slow job, and what it writes counts
			r.Faults["stale-attempt-never-given-up"]++
			fault = ""
		} else {
			j.Stale = true
			extra := hash64(r.FCfg.Salt, j.Key(), "stale-extra") % 4
			for i := uint64(0); i < extra; i++ {
				vrt.Sleep(30 * time.Second)
				j.check()
			}
			r.Faults["stale-attempt-returned:"+fault]++
			if fault == "stale-lingers" {
				// back to work, heartbeats and all, for three more hours
				r.startHeartbeat(j, md)
				for i := 0; i < 90; i++ {
					vrt.Sleep(2 * time.Minute)
					j.check()
				}
			}
			cp := *r.FCfg
			cp.Salt += "|stale"
			fc = &cp
			fault = map[string]string{"stale-complete": "", "stale-exit": "exit-nonzero", "stale-errors": "stage-error", "stale-die": "die-signal"}[fault]
		}
	}

	if fault == "hang-silent" {
		// the job hangs without a sign of life (no heartbeat, no error) for five hours,
		// then its process exits without a word
		r.Faults["job-hangs-silently"]++
		for i := 0; i < 150; i++ {
			vrt.Sleep(2 * time.Minute)
			j.check()
		}
		j.Outcome = "failed:hung"
		j.EndSeq = vos.NextSeq()
		return 3
	}
	if fault == "" && r.Cfg.AllSlow {
		fault = "slow"
	}
	if fault == "slow" {
		// a long computation: the stage code works for several (simulated)
		// minutes while the monitor keeps writing heartbeats
		r.Faults["slow-job"]++
		j.sleeping = true
		for i := 0; i < 6; i++ {
			vrt.Sleep(100 * time.Second)
			j.check()
		}
		j.sleeping = false
		fault = ""
	}
	if r.Cfg.MarkSuperseded && !j.Stale && r.superseded(j) {
		// mrp gave this attempt up (e.g. after a machine stall made its heartbeat
		// look old) and retried the job under a new uniquifier; the attempt lives
		// on.  What it produces from now on differs from the real outputs, so that
		// the oracles see whether any of it reaches the pipestance (C11).
		j.Stale = true
		cp := *r.FCfg
		cp.Salt += "|stale"
		fc = &cp
		r.Faults["superseded-attempt-finished"]++
	}

	switch fault {
	case "stage-error":
		return r.jobFail(j, md, "errors", "Traceback: simulated stage failure in "+j.Stage)
	case "transient-error":
		return r.jobFail(j, md, "errors", "signal: simulated transient failure in "+j.Stage)
	case "assert":
		return r.jobFail(j, md, "assert", "simulated assertion in "+j.Stage)
	case "assert-then-die":
		// the stage code asserts - and the process is killed before it exits (out of
		// memory killer, an operator's kill -9): mrp adds the signal to the record,
		// which does not make the assertion a transient failure
		r.jobFail(j, md, "assert", "simulated assertion in "+j.Stage)
		j.Outcome = "failed:assert+killed"
		vproc.Finish(j.proc, -1, syscall.SIGKILL)
		select {}
	case "exit-nonzero":
		j.Outcome = "failed:exit"
		j.EndSeq = vos.NextSeq()
		return 3
	case "die-signal":
		j.Outcome = "killed"
		j.EndSeq = vos.NextSeq()
		vproc.Finish(j.proc, -1, syscall.SIGKILL)
		select {}
	}

	switch j.Phase {
	case "split":
		chunks := FSplit(r.Prog, fc, st, fargs, files)
		defs := make([]map[string]interface{}, len(chunks))
		for i, c := range chunks {
			d := map[string]interface{}{}
			for k, v := range c {
				d[k] = v
			}
			if th, mem, vm := r.chunkResources(j, i); th != 0 || mem != 0 || vm != 0 {
				if vm != 0 {
					d["__vmem_gb"] = vm
				}
				if th != 0 {
					d["__threads"] = th
				}
				if mem != 0 {
					d["__mem_gb"] = mem
				}
			}
			defs[i] = d
		}
		sd := map[string]interface{}{"chunks": defs, "join": map[string]interface{}{}}
		j.Outs = sd
		var out []byte
		switch fault {
		case "bad-stage-defs":
			out = []byte(`{"chunks": 7}`)
		case "truncated-outs":
			b, _ := json.Marshal(sd)
			out = b[:len(b)/2]
		case "missing-outs", "missing-stage-defs":
			out = nil
		default:
			out, _ = json.MarshalIndent(sd, "", "  ")
		}
		if out != nil {
			vos.WriteFile(md.MetadataFilePath(core.StageDefsFile), out, 0644)
			j.check()
			md.UpdateJournal(core.StageDefsFile)
			j.check()
		}
	case "main":
		outsDecl := append([]Field{}, st.Outs...)
		if st.Split {
			outsDecl = append(outsDecl, st.ChunkOuts...)
		}
		outs := FOuts(r.Prog, fc, st.Name, "main", fargs, outsDecl, files)
		j.Outs = outs
		r.writeOuts(j, md, outs, outsDecl, fault)
	case "join":
		if raw, err := os.ReadFile(md.MetadataFilePath(core.ChunkDefsFile)); err == nil {
			j.ChunkDefs, _ = ParseJSON(raw)
		}
		if raw, err := os.ReadFile(md.MetadataFilePath(core.ChunkOutsFile)); err == nil {
			j.ChunkOuts, _ = ParseJSON(raw)
		}
		r.checkArgFiles(j, j.ChunkOuts)
		jargs := map[string]interface{}{"args": fargs, "chunk_defs": r.normFiles(stripDunderList(j.ChunkDefs)), "chunk_outs": r.normFiles(j.ChunkOuts)}
		outs := FOuts(r.Prog, fc, st.Name, "join", jargs, st.Outs, files)
		j.Outs = outs
		r.writeOuts(j, md, outs, st.Outs, fault)
	default:
		return r.jobFail(j, md, "errors", "unknown phase "+j.Phase)
	}

	// the files named in the arguments must still be readable when the job ends
	n0 := len(j.MissingFiles)
	r.checkArgFiles(j, args)
	for i := n0; i < len(j.MissingFiles); i++ {
		j.MissingFiles[i] = "AT-END:" + j.MissingFiles[i]
	}

	switch fault {
	case "late-error":
		// everything was done and written - outputs, chunk definitions, files - and
		// then the stage code failed (in its teardown, say)
		return r.jobFail(j, md, "errors", "Traceback: simulated failure at the very end of "+j.Stage)
	case "late-transient-error":
		return r.jobFail(j, md, "errors", "signal: simulated transient failure at the very end of "+j.Stage)
	}

	// --- completion (mrjob done/Complete) ---
	j.finishing = true
	if j.Monitor {
		if md.ReadInto(core.JobInfoFile, &ji) == nil {
			ji.WallClockInfo = &core.WallClockInfo{
				Start: core.WallClockTime(time.Now()), End: core.WallClockTime(time.Now())}
			if md.WriteAtomic(core.JobInfoFile, &ji) == nil {
				md.UpdateJournal(core.JobInfoFile)
			}
		}
	}
	if fault == "complete-without-journal" {
		md.WriteTime(core.CompleteFile)
		j.Outcome = "complete"
		j.EndSeq = vos.NextSeq()
		return 0
	}
	md.WriteTime(core.CompleteFile)
	j.Outcome = "complete"
	j.EndSeq = vos.NextSeq()
	md.UpdateJournal(core.CompleteFile)
	switch fault {
	case "complete-then-exit-nonzero":
		// the job reported completion, then its process failed (teardown crash)
		j.Outcome = "failed:exit-after-complete"
		return 3
	case "complete-then-die":
		j.Outcome = "killed"
		vproc.Finish(j.proc, -1, syscall.SIGKILL)
		select {}
	}
	if r.DupJournal != nil && r.DupJournal(j) {
		md.UpdateJournal(core.CompleteFile)
	}
	return 0
}

func (r *Run) writeOuts(j *JobRec, md *core.Metadata, outs map[string]interface{}, decl []Field, fault string) {
	var out []byte
	switch fault {
	case "missing-outs":
		// leave the pre-populated _outs alone: remove it
		vos.Remove(md.MetadataFilePath(core.OutsFile))
		j.check()
		return
	case "truncated-outs":
		b, _ := json.Marshal(outs)
		out = b[:len(b)/2]
	case "invalid-json":
		out = []byte("{not json")
	case "missing-key":
		m := map[string]interface{}{}
		first := true
		for _, f := range decl {
			if first {
				first = false
				continue
			}
			m[f.Name] = outs[f.Name]
		}
		out, _ = json.Marshal(m)
	case "misspelt-member":
		// a struct value (possibly inside an array or a typed map) with one member's
		// name misspelt: a declared member is missing, an undeclared one is there
		m := map[string]interface{}{}
		for k, v := range outs {
			m[k] = v
		}
		done := false
		for _, f := range decl {
			if done || r.Prog.Struct(f.T.Base) == nil || m[f.Name] == nil {
				continue
			}
			// descend through the collection dimensions to the first struct value
			var walk func(v interface{}, dims string) interface{}
			walk = func(v interface{}, dims string) interface{} {
				if v == nil || done {
					return v
				}
				if dims == "" {
					sv, ok := v.(map[string]interface{})
					if !ok || len(sv) == 0 {
						return v
					}
					o := map[string]interface{}{}
					first := sortedKeys(sv)[0]
					for k, e := range sv {
						if k == first {
							o["zz_"+k] = e
						} else {
							o[k] = e
						}
					}
					done = true
					return o
				}
				switch x := v.(type) {
				case []interface{}:
					o := make([]interface{}, len(x))
					for i := range x {
						o[i] = walk(x[i], dims[1:])
					}
					return o
				case map[string]interface{}:
					o := map[string]interface{}{}
					for _, k := range sortedKeys(x) {
						o[k] = walk(x[k], dims[1:])
					}
					return o
				}
				return v
			}
			m[f.Name] = walk(m[f.Name], f.T.Dims)
		}
		if !done {
			j.Fault = "void" // nothing to misspell in these outputs: an ordinary job
		}
		out, _ = json.Marshal(m)
	case "wrong-type":
		m := map[string]interface{}{}
		for k, v := range outs {
			m[k] = v
		}
		if len(decl) > 0 {
			f := decl[0]
			if f.T.Dims != "" {
				m[f.Name] = "not-a-collection"
			} else if f.T.Base == "string" || r.Prog.IsFileType(f.T.Base) {
				m[f.Name] = []interface{}{int64(1)}
			} else {
				m[f.Name] = "not-a-" + f.T.Base
			}
		}
		out, _ = json.Marshal(m)
	case "extra-key":
		m := map[string]interface{}{"zz_unexpected": int64(1)}
		for k, v := range outs {
			m[k] = v
		}
		out, _ = json.MarshalIndent(m, "", "  ")
	default:
		out, _ = json.MarshalIndent(outs, "", "  ")
	}
	vos.WriteFile(md.MetadataFilePath(core.OutsFile), out, 0644)
	j.check()
}

func (r *Run) jobFail(j *JobRec, md *core.Metadata, kind, msg string) int {
	j.finishing = true
	var ji core.JobInfo
	if j.Monitor && md.ReadInto(core.JobInfoFile, &ji) == nil {
		if md.WriteAtomic(core.JobInfoFile, &ji) == nil {
			md.UpdateJournal(core.JobInfoFile)
		}
	}
	name := core.Errors
	if kind == "assert" {
		name = core.Assert
	}
	md.WriteRaw(name, msg)
	j.Outcome = "failed:" + kind
	j.EndSeq = vos.NextSeq()
	md.UpdateJournal(name)
	return 0 // the monitor exits 0 after recording the failure
}

func (r *Run) startHeartbeat(j *JobRec, md *core.Metadata) {
	vrt.Go(j.proc.Name+"/heartbeat", j.proc, func() {
		for {
			vrt.Sleep(2 * time.Minute)
			if j.finishing || j.aborted {
				select {}
			}
			if r.DropHeartbeat != nil && r.DropHeartbeat(j) {
				continue
			}
			md.UpdateJournal(core.Heartbeat)
			r.Probes["heartbeat-written"]++
		}
	})
}

func stripDunder(m map[string]interface{}) map[string]interface{} {
	out := make(map[string]interface{}, len(m))
	for k, v := range m {
		if strings.HasPrefix(k, "__") {
			continue
		}
		out[k] = v
	}
	return out
}

func stripDunderList(v interface{}) interface{} {
	l, ok := v.([]interface{})
	if !ok {
		return v
	}
	out := make([]interface{}, len(l))
	for i, e := range l {
		if m, ok := e.(map[string]interface{}); ok {
			out[i] = stripDunder(m)
		} else {
			out[i] = e
		}
	}
	return out
}

func sanitizeFileName(s string) string {
	r := strings.NewReplacer("/", "_", "[", "_", "]", "", "{", "_", "}", "", ".", "_", "|", "_")
	return r.Replace(s)
}

// outKind implements the unusual-but-legal shapes of a file-typed output (profile
// C13).  It returns the path the stage reports and whether it handled the output.
func (r *Run) outKind(j *JobRec, p, name, content string) (string, bool) {
	note := func(rec *FileRec) {
		rec.Job, rec.Seq = j, vos.NextSeq()
		r.Files[rec.Path] = rec
	}
	writeReal := func(rp string) bool {
		if vos.WriteFile(rp, []byte(content), 0644) != nil {
			return false
		}
		j.check()
		note(&FileRec{Path: rp, Content: content, Extra: true})
		return true
	}
	ext := func() string {
		// data that existed before the pipestance, outside it (not a stage effect)
		// (half of them in a directory whose path merely begins like the pipestance's)
		d := path.Join(r.Root, "ext")
		if hash64(j.Key(), j.Phase, name, "extdir")%2 == 0 {
			d = path.Join(r.Root, "ps_archive")
			if r.Cfg.LinkedRoot {
				d = r.PsDir + "_archive"
			}
		}
		os.MkdirAll(d, 0755)
		ep := path.Join(d, fmt.Sprintf("ext_%x", hash64(j.Key(), j.Phase, name)))
		os.WriteFile(ep, []byte(content), 0644)
		r.ExtFiles[ep] = content
		return ep
	}
	switch hash64(r.FCfg.Salt, j.Key(), j.Phase, name, "outkind") % 15 {
	case 7:
		// ... the same, named relative to the working directory
		e := ext()
		r.Files[e] = &FileRec{Path: e, Content: content, Kind: "outside", Job: j, Seq: vos.NextSeq()}
		wd, err := os.Getwd()
		if err != nil {
			return e, true
		}
		rel, err := filepath.Rel(wd, e)
		if err != nil {
			return e, true
		}
		if !strings.HasPrefix(rel, "../") {
			rel = "./" + rel
		}
		r.Faults["stage-output-is-relative-path-outside-pipestance"]++
		return rel, true
	case 6:
		// a chain of relative links through another directory: each hop has to be
		// resolved against the directory of the link it was read from
		sub := path.Join(path.Dir(p), "links_"+path.Base(p))
		if vos.MkdirAll(sub, 0755) != nil {
			return p, true
		}
		j.check()
		if !writeReal(p + ".real") {
			return p, true
		}
		vos.Symlink(path.Join("..", path.Base(p)+".real"), path.Join(sub, "mid"))
		j.check()
		vos.Symlink(path.Join(path.Base(sub), "mid"), p)
		j.check()
		r.Faults["stage-output-is-symlink-chain-across-directories"]++
		note(&FileRec{Path: p, Content: content, Kind: "symlink", Target: p + ".real"})
		return p, true
	case 0:
		r.Faults["stage-output-file-never-created"]++
		note(&FileRec{Path: p, Kind: "missing"})
		return p, true
	case 1:
		if !writeReal(p + ".real") {
			return p, true
		}
		vos.Symlink(path.Base(p)+".real", p)
		j.check()
		r.Faults["stage-output-is-relative-symlink"]++
		note(&FileRec{Path: p, Content: content, Kind: "symlink", Target: p + ".real"})
		return p, true
	case 2:
		if !writeReal(p + ".real") {
			return p, true
		}
		vos.Symlink(p+".real", p)
		j.check()
		r.Faults["stage-output-is-absolute-symlink"]++
		note(&FileRec{Path: p, Content: content, Kind: "symlink", Target: p + ".real"})
		return p, true
	case 3:
		e := ext()
		vos.Symlink(e, p)
		j.check()
		r.Faults["stage-output-is-symlink-to-outside"]++
		note(&FileRec{Path: p, Content: content, Kind: "symlink", Target: e})
		return p, true
	case 4:
		r.Faults["stage-output-is-path-outside-pipestance"]++
		e := ext()
		r.Files[e] = &FileRec{Path: e, Content: content, Kind: "outside", Job: j, Seq: vos.NextSeq()}
		return e, true
	case 5:
		if !writeReal(p + ".real") {
			return p, true
		}
		vos.Symlink(path.Base(p)+".real", p+".mid")
		j.check()
		vos.Symlink(path.Base(p)+".mid", p)
		j.check()
		r.Faults["stage-output-is-symlink-chain"]++
		note(&FileRec{Path: p, Content: content, Kind: "symlink", Target: p + ".real"})
		return p, true
	}
	return "", false
}

// superseded reports whether mrp has replaced this attempt of the job: its
// directory is gone, or the job's name points at a directory with another uniquifier.
func (r *Run) superseded(j *JobRec) bool {
	if _, err := os.Stat(j.MetaPath); err != nil {
		return true
	}
	if t, err := os.Readlink(path.Join(path.Dir(j.MetaPath), j.Leaf)); err == nil && t != path.Base(j.MetaPath) {
		return true
	}
	return false
}
