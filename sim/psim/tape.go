package psim

// Tape is the single source of every random choice of a run.  In generation mode
// values come from a PRNG seeded by the run seed and are recorded; in replay mode
// they come from the recorded vector (missing entries read as 0, which every
// consumer maps to its "boring" default).  A replay file is therefore just the
// recorded vectors, and shrinking operates on them.

type Tape struct {
	Rec    []uint32
	replay []uint32
	pos    int
	state  uint64
	fixed  bool
}

func NewTape(seed uint64) *Tape {
	return &Tape{state: seed*0x9E3779B97F4A7C15 + 0x632BE59BD9B4E019}
}

func ReplayTape(v []uint32) *Tape {
	return &Tape{replay: v, fixed: true}
}

func (t *Tape) next64() uint64 {
	// splitmix64
	t.state += 0x9E3779B97F4A7C15
	z := t.state
	z = (z ^ (z >> 30)) * 0xBF58476D1CE4E5B9
	z = (z ^ (z >> 27)) * 0x94D049BB133111EB
	return z ^ (z >> 31)
}

// Draw returns a value in [0, n).  n must be > 0.
func (t *Tape) Draw(n int) int {
	if n <= 1 {
		// still consume a slot so that positions are stable under program edits
		t.Rec = append(t.Rec, 0)
		if t.fixed {
			t.pos++
		}
		return 0
	}
	var v uint32
	if t.fixed {
		if t.pos < len(t.replay) {
			v = t.replay[t.pos]
		}
		t.pos++
		v = v % uint32(n)
	} else {
		v = uint32(t.next64() % uint64(n))
	}
	t.Rec = append(t.Rec, v)
	return int(v)
}

// Chance returns true with probability num/den (false on a zero tape).
func (t *Tape) Chance(num, den int) bool {
	return t.Draw(den) >= den-num
}

// Pick returns an index weighted by w (all weights > 0); 0 on a zero tape.
func (t *Tape) Pick(w []int) int {
	total := 0
	for _, x := range w {
		total += x
	}
	v := t.Draw(total)
	for i, x := range w {
		if v < x {
			return i
		}
		v -= x
	}
	return len(w) - 1
}

func (t *Tape) Exhausted() bool { return t.fixed && t.pos >= len(t.replay) }
