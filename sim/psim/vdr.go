package psim

import (
	"encoding/json"
	"fmt"
	"os"
	"path"
	"path/filepath"
	"sort"
	"strings"
	"syscall"

	"github.com/martian-lang/martian/martian/verifsim/vos"
)

// ---------------------------------------------------------------------------
// C04 / C14: volatile data removal.  Programs whose stages write files
// (referenced by outputs, unreferenced extras, scratch files in tmp/), all VDR
// modes, volatile / strict / retain annotations, adversarial release times of
// the asynchronous cleanup goroutines (they are gated tasks).
// ---------------------------------------------------------------------------

func collectPaths(v interface{}, prefix string, out map[string]bool) {
	switch x := v.(type) {
	case string:
		if strings.HasPrefix(x, prefix+"/") {
			out[x] = true
		}
	case []interface{}:
		for _, e := range x {
			collectPaths(e, prefix, out)
		}
	case map[string]interface{}:
		for _, e := range x {
			collectPaths(e, prefix, out)
		}
	}
}

// fileToken maps pipestance paths to the content recorded when stage code wrote
// them, so values can be compared independently of where the file lives now.
func (r *Run) recordedTokens(v interface{}) interface{} {
	switch x := v.(type) {
	case string:
		if strings.HasPrefix(x, r.PsDir+"/") {
			if kids, isDir := r.Dirs[x]; isDir {
				var parts []string
				for _, k := range kids {
					parts = append(parts, path.Base(k)+"="+r.Files[k].Content)
				}
				sort.Strings(parts)
				return "DIR:" + strings.Join(parts, ";")
			}
			if rec := r.fileRec(x); rec != nil {
				return "FILE:" + rec.Content
			}
			return "UNKNOWN-FILE:" + path.Base(x)
		}
		return x
	case []interface{}:
		out := make([]interface{}, len(x))
		for i := range x {
			out[i] = r.recordedTokens(x[i])
		}
		return out
	case map[string]interface{}:
		out := make(map[string]interface{}, len(x))
		for k, e := range x {
			out[k] = r.recordedTokens(e)
		}
		return out
	}
	return v
}

func exists(p string) bool {
	_, err := os.Lstat(p)
	return err == nil
}

func vdrCase(c *Ctx, focus string) {
	gcfg := swarmGen(c.Plan, c.thorough())
	gcfg.Files = true
	gcfg.Volatile = c.Plan.Draw(4) > 0
	gcfg.Retain = c.Plan.Draw(2) == 0
	prog := Generate(c.Plan, gcfg)
	if c.Plan.Draw(3) == 0 || os.Getenv("VERIF_VDR_TEMPLATE") != "" {
		// a third of the cases come from the producer / retain / consumer family
		prog = templateVdrProg(c.Plan)
		c.Res.Probes["template-program"]++
	}
	mode := []string{"rolling", "post", "strict"}[c.Plan.Draw(3)]
	linked := c.Plan.Draw(4) == 0 && os.Getenv("VERIF_NOLINK") == ""
	cfg := &RunCfg{Prog: prog, LinkedRoot: linked, CanonicalPaths: linked, FCfg: &FCfg{MaxLen: 1 + c.Plan.Draw(3), MaxChunks: c.Plan.Draw(4), Salt: "vdr", AllowNil: c.Plan.Draw(3) == 0, PathStrings: c.Plan.Draw(3) == 0},
		MaxSteps: 80000, ExtraFiles: true, SubDirs: c.Plan.Draw(3) == 0, LinkDirs: c.Plan.Draw(3) == 0, Companions: c.Plan.Draw(2) == 0, DirOutputs: c.Plan.Draw(3) == 0}
	cfg.Flags = append(baseFlags(c.Plan), "--vdrmode="+mode)
	swarmSched(c.Plan, cfg)
	// the detached cleanup goroutines are "aux" tasks: vary their priority strongly
	cfg.WAux = []int{1, 1, 30, 100}[c.Plan.Draw(4)]
	splittingConsumer := false
	for _, st := range prog.Stages {
		if strings.HasPrefix(st.Name, "CONSUME") && st.Split {
			splittingConsumer = true
		}
	}
	if splittingConsumer && c.Plan.Draw(2) == 0 {
		// a consumer that splits sits at "split_complete" while mrp creates its
		// chunks and at "chunks_complete" until its join starts: many chunks and a
		// slow mrp (journal entries of several jobs arrive in one refresh) widen
		// the windows in which the producer's cleanup can see it there
		cfg.FCfg.MaxChunks = 3 + c.Plan.Draw(6)
		cfg.WMrp, cfg.WJob = 1, 30
	}
	if prog.Stage("CONSUME0") != nil && c.Plan.Draw(3) == 0 {
		// one consumer's jobs are slow: it sits at its phase boundaries while its
		// siblings finish and the producer is visited by the cleanup again
		cfg.SlowLabel, cfg.SlowDiv = fmt.Sprintf("CONSUME%d", c.Plan.Draw(3)), 64
	}
	if c.Plan.Draw(5) == 0 {
		// --overrides: volatility forced on or off for single stages or whole
		// sub-pipelines, resources replaced per phase
		stages, pipes := stageNodes(prog)
		ov := map[string]map[string]interface{}{}
		for i := 0; i < 1+c.Plan.Draw(3); i++ {
			all := append(append([]string{}, stages...), pipes...)
			n := all[c.Plan.Draw(len(all))]
			if ov[n] == nil {
				ov[n] = map[string]interface{}{}
			}
			switch c.Plan.Draw(3) {
			case 0:
				ov[n]["force_volatile"] = true
			case 1:
				ov[n]["force_volatile"] = false
			default:
				ov[n][[]string{"chunk.threads", "join.mem_gb", "split.threads", "chunk.mem_gb"}[c.Plan.Draw(4)]] = []float64{1, 2, 0.5, 3}[c.Plan.Draw(4)]
			}
		}
		cfg.Overrides = ov
		c.Res.Probes["runs-with-overrides"]++
	}
	interrupted := false
	if focus == "C14" && c.Plan.Draw(3) == 0 {
		interrupted = true
		cfg.Crashes = []CrashSpec{{Inc: 1, AtGate: 40 + c.Plan.Draw(600), Kind: []string{"kill", "sigterm", "powerloss"}[c.Plan.Draw(3)]}}
		cfg.Restarts = 1
	}
	// C04 across a restart: what the first mrp knew about who still needs which file
	// is gone; the second one rebuilds it from the metadata on disk - and in half of
	// these runs some of its reads of that metadata fail (EIO, too little memory to
	// load a large _outs): what cannot be read must not be taken for "needs nothing"
	c04Restart, readFaults := false, false
	readSalt := fmt.Sprintf("rd%d", c.Plan.Draw(1<<20))
	if focus == "C04" && (c.Plan.Draw(6) == 0 || os.Getenv("VERIF_C04") == "restart") {
		c04Restart, interrupted = true, true
		cfg.Crashes = []CrashSpec{{Inc: 1, AtGate: 40 + c.Plan.Draw(600), Kind: []string{"kill", "sigterm", "sigint"}[c.Plan.Draw(3)]}}
		cfg.Restarts = 1
		readFaults = c.Plan.Draw(2) == 0
		c.Res.Probes["runs-with-restart"]++
	}
	// removal faults: some paths cannot be removed (a file still held open on NFS
	// makes the directory "not empty", a foreign owner makes it EACCES); every
	// attempt of the storage code on such a path fails.  What could not be removed
	// may stay, but must not be reported as removed.
	rmFaults := focus == "C14" && !interrupted && c.Plan.Draw(6) == 0
	rmSalt := fmt.Sprintf("rm%d", c.Plan.Draw(1<<20))
	var setup func(r *Run)
	if rmFaults {
		setup = func(r *Run) {
			r.PreStart = func() {
				vos.W.Before = func(ev *vos.Event, data []byte) error {
					if ev.Site == "storage.go" && (ev.Op == "removeall" || ev.Op == "remove") && ev.PKind == "mrp" &&
						hash64(rmSalt, ev.Path)%3 == 0 {
						if _, err := os.Lstat(r.abs(ev.Path)); err != nil {
							return nil // nothing there: removing nothing succeeds
						}
						r.Faults["removal-fails"]++
						e := syscall.ENOTEMPTY
						if hash64(rmSalt, ev.Path, "kind")%2 == 0 {
							e = syscall.EACCES
						}
						return &os.PathError{Op: "unlinkat", Path: r.abs(ev.Path), Err: e}
					}
					return nil
				}
			}
		}
	}
	if readFaults {
		setup = func(r *Run) {
			r.PreStart = func() {
				vos.W.BeforeRead = func(pkind, stack, p string) error {
					if r.Inc >= 2 && pkind == "mrp" && strings.Contains(stack, "storage.go") && strings.HasSuffix(p, "/_outs") &&
						hash64(readSalt, p)%2 == 0 {
						r.Faults["metadata-read-fails-in-storage-code"]++
						return &os.PathError{Op: "open", Path: r.abs(p), Err: syscall.EIO}
					}
					return nil
				}
			}
		}
	}
	r := c.RunOnce(cfg, setup)
	c.Res.Shape = progShape(prog)
	c.Res.Class = r.Class()
	c.Res.Probes["mode:"+mode]++
	if rmFaults {
		c.Res.Probes["runs-with-removal-faults"]++
	}
	if len(r.Panics) > 0 {
		c.Res.Class = "mrp-panicked"
		c.Res.Notes = append(c.Res.Notes, "mrp panic: "+firstLines(r.Panics[0], 3))
		c.Res.Violations = append(c.Res.Violations, Violation{"OBS", "mrp-panic", firstLines(r.Panics[0], 14), r.Steps})
		c.Res.Sample = describeRun(r, true)
		return
	}
	if len(vos.W.Outside) > 0 {
		c.Res.Violations = append(c.Res.Violations, Violation{"C14", "write-outside-pipestance",
			"mutating filesystem call outside the pipestance directory: " + strings.Join(vos.W.Outside, "; "), r.Steps})
	}
	if r.Class() != "complete" {
		if r.Class() == "failed" && !interrupted {
			if ev, _ := Evaluate(prog, r.Jobs); ev.Rejected == "" {
				// a missing input file makes martian (or the stage) fail: look at the jobs
				for _, j := range r.Jobs {
					if len(j.MissingFiles) > 0 {
						c.Res.Violations = append(c.Res.Violations, Violation{"C04", "arg-file-missing",
							fmt.Sprintf("job %s (%s) found files named in its arguments missing or changed: %v", j.Key(), j.Phase, j.MissingFiles), r.Steps})
					}
				}
			}
		}
		if interrupted {
			c.Res.Notes = append(c.Res.Notes, "interrupted run ended as "+r.Class())
		}
		if len(c.Res.Violations) > 0 {
			c.Res.Sample = describeRun(r, true)
		}
		return
	}
	ev, top := Evaluate(prog, r.Jobs)
	if ev.Rejected != "" {
		c.Res.Class = "model-rejected"
		return
	}
	c.Res.Nontrivial = len(r.Files) >= 2
	c.Res.Probes["files-written"] += len(r.Files)
	add := func(prop, oracle, msg string) {
		c.Res.Violations = append(c.Res.Violations, Violation{prop, oracle, "[vdrmode=" + mode + "] " + msg, r.Steps})
	}
	// paths whose removal was refused (removal faults): they and what lies below
	// them may survive
	var refused []string
	for _, e := range vos.W.Events {
		if e.Site == "storage.go" && (e.Op == "removeall" || e.Op == "remove") && e.Err != "" {
			refused = append(refused, r.abs(e.Path))
		}
	}
	undeletable := func(abs string) bool {
		for _, q := range refused {
			if abs == q || strings.HasPrefix(abs, q+"/") || strings.HasPrefix(q, abs+"/") {
				return true
			}
		}
		return false
	}
	// ---- C04 (i): every job found its argument files ----
	for _, j := range r.Jobs {
		if len(j.MissingFiles) > 0 {
			add("C04", "arg-file-missing", fmt.Sprintf("job %s (%s, incarnation %d) found files named in its arguments missing or changed: %v",
				j.Key(), j.Phase, j.Inc, j.MissingFiles))
		}
	}
	// ---- names kept alive by the top level and by retains ----
	named := map[string]bool{}
	expTop := r.givenVal(top.plain())
	collectPaths(expTop, r.PsDir, named)
	retained := map[string]bool{}
	for _, in := range ev.Insts {
		if in.Outs == nil {
			continue
		}
		for _, p := range in.Stage.Retain {
			collectPaths(r.givenVal(in.Outs[p]), r.PsDir, retained)
		}
	}
	// pipeline-level retains: the named output of every instance of the call
	for _, in := range ev.Insts {
		if in.Outs == nil || in.Call == nil {
			continue
		}
		for _, pl := range prog.Pipelines {
			for _, rt := range pl.Retain {
				for _, cc := range pl.Calls {
					if cc == in.Call && rt.Call == cc.Id {
						collectPaths(r.givenVal(in.Outs[rt.Path[0]]), r.PsDir, retained)
					}
				}
			}
		}
	}
	// calls which some pipeline returns as a whole
	wholeBound := map[*CallDef]bool{}
	for _, pl := range prog.Pipelines {
		var walk func(e *Expr)
		walk = func(e *Expr) {
			if e == nil {
				return
			}
			if e.Kind == ERef && !e.Self && len(e.Path) == 0 {
				for _, cc := range pl.Calls {
					if cc.Id == e.Call {
						wholeBound[cc] = true
					}
				}
			}
			for _, x := range e.Elems {
				walk(x)
			}
		}
		for _, b := range pl.Ret {
			walk(b.E)
		}
	}
	// ---- C04 (iii): final outputs exist with their original content ----
	if !ev.Incomplete && ev.Ambiguous == 0 && (!interrupted || c04Restart) {
		act, err := r.ReadTopOuts()
		if err != nil {
			add("C04", "top-outs-missing", err.Error())
		} else {
			want := r.recordedTokens(expTop)
			got := r.normFiles(act)
			if !MatchVal(want, got) {
				add("C04", "final-output-file-lost-or-changed", fmt.Sprintf("top-level outputs by content: expected %s got %s", Show(want), Show(got)))
			}
		}
		for p := range retained {
			if named[p] {
				continue // moved to outs/ by post-processing
			}
			if kids, isDir := r.Dirs[p]; isDir {
				for _, k := range kids {
					if b, err := os.ReadFile(k); err != nil {
						add("C04", "retained-file-removed", "file below a directory named by a retained output is gone: "+strings.TrimPrefix(k, r.PsDir+"/"))
					} else if r.Files[k].Content != string(b) {
						add("C04", "retained-file-changed", strings.TrimPrefix(k, r.PsDir+"/"))
					}
				}
				continue
			}
			b, err := os.ReadFile(p)
			if err != nil {
				add("C04", "retained-file-removed", "file named by a retained output is gone: "+strings.TrimPrefix(p, r.PsDir+"/"))
			} else if rec := r.fileRec(p); rec != nil && rec.Content != string(b) {
				add("C04", "retained-file-changed", strings.TrimPrefix(p, r.PsDir+"/"))
			}
		}
	}
	c.Res.Probes["top-level-files"] += len(named)
	c.Res.Probes["retained-files"] += len(retained)
	// ---- C14 ----
	// (i) no per-job tmp directory (of a job that ran); chunk files of splitting
	// stages are gone
	ranIn := map[string]bool{}
	for _, j := range r.Jobs {
		ranIn[j.MetaPath] = true
	}
	filepath.Walk(r.PsDir, func(p string, info os.FileInfo, err error) error {
		if err != nil || info == nil {
			return nil
		}
		if info.IsDir() && info.Name() == "tmp" && p != path.Join(r.PsDir, "tmp") {
			rel := strings.TrimPrefix(p, r.PsDir+"/")
			if strings.Contains(rel, "/fork") && ranIn[path.Dir(p)] && !undeletable(p) {
				add("C14", "tmp-dir-left", "temporary directory survives completion: "+rel)
			}
		}
		return nil
	})
	instOf := map[string]*Inst{}
	for _, in := range ev.Insts {
		if in.Group != nil {
			instOf[in.Group.Node+"\x00"+in.Group.Fork] = in
		}
	}
	for p, rec := range r.Files {
		in := instOf[rec.Job.Node+"\x00"+rec.Job.Fork]
		if in == nil {
			continue
		}
		rel := strings.TrimPrefix(p, r.PsDir+"/")
		if rec.Tmp {
			if exists(p) && !undeletable(p) {
				add("C14", "tmp-file-left", "scratch file survives completion: "+rel)
			}
			continue
		}
		fv, fvSet := r.forceVolatile(in.Node)
		if fvSet {
			c.Res.Probes["files-of-stages-with-volatility-override"]++
		}
		if in.Stage.Split && rec.Job.Phase == "main" && !(fvSet && !fv) {
			c.Res.Probes["chunk-files-of-split-stage"]++
			if exists(p) && !undeletable(p) {
				add("C14", "chunk-file-left", "chunk-level file of a splitting stage survives completion: "+rel)
			}
			continue
		}
		vol := (in.Call != nil && in.Call.Volatile) || in.Stage.Volatile == "strict" ||
			(mode == "strict" && in.Stage.Volatile != "false")
		if fvSet {
			vol = fv
		}
		if in.Stage.Split && rec.Job.Phase == "main" {
			continue // chunk files of a stage whose volatility is forced off: may stay
		}
		if !vol {
			continue
		}
		if in.Outs == nil {
			// the model could not follow this instance to its outputs (an interrupted
			// run whose split was killed after it had written its chunk definitions):
			// what it retains or returns is unknown
			c.Res.Probes["instance-outputs-unknown"]++
			continue
		}
		c.Res.Probes["volatile-files"]++
		if t, err := filepath.EvalSymlinks(p); err == nil && strings.HasPrefix(t, path.Join(r.PsDir, "outs")+"/") {
			// post-processing moved the file to outs/ and left a link behind: it is
			// a top-level output, whatever the model could reconstruct of the run
			continue
		}
		keep := named[p] || retained[p] || (rec.Logical != "" && (named[rec.Logical] || retained[rec.Logical])) ||
			(rec.InDir != "" && (named[rec.InDir] || retained[rec.InDir]))
		if !keep && exists(p) && !undeletable(p) && wholeBound[in.Call] {
			// the callee is returned as a whole (all outputs as one struct) by a
			// pipeline, narrowed to a struct type that does not have this output
			add("C14", "file-of-whole-bound-callee-left", fmt.Sprintf("file of volatile stage %s survives completion: the call is returned as a whole, bound to a struct type which does not contain the output that names %s", in.Index, rel))
		} else if !keep && exists(p) && !undeletable(p) {
			add("C14", "volatile-file-left", fmt.Sprintf("file of volatile stage %s survives completion although neither a top-level output nor a retain names it: %s", in.Index, rel))
		}
	}
	// (iii)+(iv) kill reports
	// Every report covers its own directory minus the sub-directories which have a
	// report of their own (the fork of a nested map call over an empty collection
	// keeps its metadata in the node directory itself, next to its sibling forks).
	var reportDirs []string
	filepath.Walk(r.PsDir, func(p string, info os.FileInfo, err error) error {
		if err == nil && info != nil && !info.IsDir() && info.Name() == "_vdrkill" {
			reportDirs = append(reportDirs, "ps/"+strings.TrimPrefix(path.Dir(p), r.PsDir+"/"))
		}
		return nil
	})
	ownedBy := func(rel, dir string) bool {
		if !strings.HasPrefix(rel, dir+"/") {
			return false
		}
		for _, d := range reportDirs {
			if len(d) > len(dir) && strings.HasPrefix(d, dir+"/") && strings.HasPrefix(rel, d+"/") {
				return false
			}
		}
		return true
	}
	filepath.Walk(r.PsDir, func(p string, info os.FileInfo, err error) error {
		if err != nil || info == nil || info.IsDir() || info.Name() != "_vdrkill" {
			return nil
		}
		b, err := os.ReadFile(p)
		if err != nil {
			return nil
		}
		var rep struct {
			Paths []string `json:"paths"`
			Count uint     `json:"count"`
			Size  uint64   `json:"size"`
		}
		if json.Unmarshal(b, &rep) != nil {
			add("C14", "kill-report-unparseable", strings.TrimPrefix(p, r.PsDir+"/"))
			return nil
		}
		c.Res.Probes["kill-reports"]++
		seen := map[string]bool{}
		counted := map[string]bool{}
		var knownBytes uint64
		var knownFiles uint
		for _, kp := range rep.Paths {
			if seen[kp] && undeletable(kp) {
				add("C14", "refused-removal-reported-as-removed", fmt.Sprintf("%s lists %s, whose removal failed, once per attempt", strings.TrimPrefix(p, r.PsDir+"/"), strings.TrimPrefix(kp, r.PsDir+"/")))
			} else if seen[kp] {
				add("C14", "path-reported-twice", fmt.Sprintf("%s lists %s twice", strings.TrimPrefix(p, r.PsDir+"/"), kp))
			}
			seen[kp] = true
			if exists(kp) {
				if undeletable(kp) {
					// the removal was attempted and refused (removal fault); the
					// report was written as if it had succeeded
					add("C14", "refused-removal-reported-as-removed", fmt.Sprintf("%s lists %s, whose removal failed (the error is under \"errors\"), as removed, and counts it", strings.TrimPrefix(p, r.PsDir+"/"), strings.TrimPrefix(kp, r.PsDir+"/")))
				} else {
					add("C14", "reported-path-still-exists", fmt.Sprintf("%s lists %s which still exists", strings.TrimPrefix(p, r.PsDir+"/"), strings.TrimPrefix(kp, r.PsDir+"/")))
				}
			}
			for fp, rec := range r.Files {
				if (fp == kp || strings.HasPrefix(fp, kp+"/")) && !counted[fp] {
					// (a file listed on its own in one round and again below its
					// directory in a later one is one file)
					counted[fp] = true
					knownBytes += uint64(len(rec.Content))
					knownFiles++
				}
			}
		}
		if path.Dir(p) != r.PsDir {
			// what the storage code actually removed below this fork: stage files
			// covered by a removal issued from storage.go (resets after a restart
			// remove whole job directories from metadata.go and are not VDR)
			forkDir := "ps/" + strings.TrimPrefix(path.Dir(p), r.PsDir+"/")
			var vdrBytes uint64
			var vdrFiles uint
			for fp, rec := range r.Files {
				frel := "ps/" + strings.TrimPrefix(fp, r.PsDir+"/")
				if !ownedBy(frel, forkDir) || exists(fp) {
					continue
				}
				// a file written below a symlinked directory can be removed under
				// either of its names
				lrel := frel
				if rec.Logical != "" {
					lrel = "ps/" + strings.TrimPrefix(rec.Logical, r.PsDir+"/")
				}
				for _, ev := range vos.W.Events {
					if ev.Seq > rec.Seq && ev.Site == "storage.go" && ev.Err == "" &&
						(ev.Op == "removeall" || ev.Op == "remove") &&
						(ev.Path == frel || strings.HasPrefix(frel, ev.Path+"/") || ev.Path == lrel || strings.HasPrefix(lrel, ev.Path+"/")) {
						// Only removals whose accounting reached the disk count: the
						// same mrp process wrote this fork's (partial) kill report
						// afterwards.  A SIGKILL between a removal and the report
						// write loses the numbers unavoidably.
						confirmed := false
						for _, w := range vos.W.Events {
							if w.Seq > ev.Seq && w.Pid == ev.Pid && w.Op == "write" && w.Err == "" &&
								(w.Path == forkDir+"/_vdrkill.partial" || w.Path == forkDir+"/_vdrkill") {
								confirmed = true
								break
							}
						}
						if confirmed {
							vdrBytes += uint64(len(rec.Content))
							vdrFiles++
						}
						break
					}
				}
			}
			if vdrFiles > 0 {
				c.Res.Probes["kill-report-vs-actual-removals-checked"]++
			}
			if rep.Size < vdrBytes || rep.Count < vdrFiles {
				add("C14", "kill-report-misses-removed-files", fmt.Sprintf("%s reports %d files / %d bytes, but the storage code removed at least %d stage files / %d bytes below that fork",
					strings.TrimPrefix(p, r.PsDir+"/"), rep.Count, rep.Size, vdrFiles, vdrBytes))
			}
		}
		refusedHere := false
		for _, q := range refused {
			if strings.HasPrefix(q, path.Dir(p)+"/") {
				refusedHere = true
			}
		}
		if !interrupted && path.Dir(p) != r.PsDir && !refusedHere {
			// upper bound, exact with respect to the file system: everything the
			// storage code removed below this fork, measured by the disk seam just
			// before each removal (files and the directories holding them)
			forkDir := "ps/" + strings.TrimPrefix(path.Dir(p), r.PsDir+"/")
			var rmEntries, linkEntries int
			var rmBytes, linkBytes int64
			for _, ev := range vos.W.Events {
				if ev.Site == "storage.go" && ev.Err == "" && (ev.Op == "removeall" || ev.Op == "remove") &&
					ownedBy(ev.Path, forkDir) {
					rmEntries += ev.RmFiles + ev.RmDirs
					rmBytes += ev.RmFileBytes + ev.RmDirBytes
					linkEntries += ev.RmLinkEntries
					linkBytes += ev.RmLinkBytes
				}
			}
			// files below a symlinked directory have two names; martian's per-file
			// bookkeeping knows both and accounts the file under each
			aliased := false
			for lp := range r.Logical {
				if strings.HasPrefix(lp, path.Dir(p)+"/") {
					aliased = true
				}
			}
			// a directory's size is not a constant: on the scratch file system (tmpfs) it
			// is 20 bytes per entry, martian measures it when it enumerates the
			// directory, the seam just before the removal - by then martian may have
			// removed entries of it one by one (each of them accounted on both sides)
			dirDrift := int64(20 * rmEntries)
			if (int(rep.Count) > rmEntries+linkEntries || int64(rep.Size) > rmBytes+linkBytes+dirDrift) && !aliased {
				add("C14", "kill-report-exceeds-what-was-removed", fmt.Sprintf("%s reports %d entries / %d bytes, but all removals below that fork together found only %d entries / %d bytes (listed: %v)",
					strings.TrimPrefix(p, r.PsDir+"/"), rep.Count, rep.Size, rmEntries, rmBytes, rep.Paths))
			} else if int(rep.Count) > rmEntries || int64(rep.Size) > rmBytes+dirDrift {
				// the stage left a symlink to a directory in its files directory
				add("C14", "kill-report-counts-files-below-symlinked-directory-twice", fmt.Sprintf("%s reports %d entries / %d bytes, the removals below that fork found %d entries / %d bytes (following the removed directory symlinks: %d more entries / %d bytes): what lies below a symlinked directory is accounted under both of its names",
					strings.TrimPrefix(p, r.PsDir+"/"), rep.Count, rep.Size, rmEntries, rmBytes, linkEntries, linkBytes))
			}
			c.Res.Probes["kill-report-accounting-checked"]++
			if rep.Size < knownBytes || rep.Count < knownFiles {
				add("C14", "kill-report-undercounts", fmt.Sprintf("%s reports %d files / %d bytes but lists paths holding %d stage files / %d bytes",
					strings.TrimPrefix(p, r.PsDir+"/"), rep.Count, rep.Size, knownFiles, knownBytes))
			}
			if rep.Size > knownBytes+uint64(rep.Count)*4096 {
				add("C14", "kill-report-overcounts", fmt.Sprintf("%s reports %d bytes for %d entries; stage files under the listed paths hold %d bytes",
					strings.TrimPrefix(p, r.PsDir+"/"), rep.Size, rep.Count, knownBytes))
			}
		}
		return nil
	})
	// (v) the pipestance-level report is the sum of the per-fork reports
	type krep struct {
		Paths []string `json:"paths"`
		Count uint     `json:"count"`
		Size  uint64   `json:"size"`
	}
	readRep := func(p string) *krep {
		b, err := os.ReadFile(p)
		if err != nil {
			return nil
		}
		var k krep
		if json.Unmarshal(b, &k) != nil {
			return nil
		}
		return &k
	}
	if topRep := readRep(path.Join(r.PsDir, "_vdrkill")); topRep != nil {
		var sumCount uint
		var sumSize uint64
		var partCount uint
		var partSize uint64
		var detail []string
		all := map[string]int{}
		filepath.Walk(r.PsDir, func(p string, info os.FileInfo, err error) error {
			if err != nil || info == nil || info.IsDir() || path.Dir(p) == r.PsDir {
				return nil
			}
			switch info.Name() {
			case "_vdrkill":
				if k := readRep(p); k != nil {
					sumCount += k.Count
					sumSize += k.Size
					if k.Count > 0 {
						detail = append(detail, fmt.Sprintf("%s: %d/%d", strings.TrimPrefix(path.Dir(p), r.PsDir+"/"), k.Count, k.Size))
					}
					for _, kp := range k.Paths {
						all[kp]++
					}
				}
			case "_vdrkill.partial":
				if _, err := os.Stat(path.Join(path.Dir(p), "_vdrkill")); err != nil {
					if k := readRep(p); k != nil {
						partCount += k.Count
						partSize += k.Size
					}
				}
			}
			return nil
		})
		c.Res.Probes["pipestance-level-report-checked"]++
		if topRep.Count < sumCount || topRep.Size < sumSize || topRep.Count > sumCount+partCount || topRep.Size > sumSize+partSize {
			add("C14", "pipestance-report-differs-from-fork-reports", fmt.Sprintf("_vdrkill of the pipestance reports %d files / %d bytes, the per-fork reports add up to %d files / %d bytes (unfinished partial reports: %d / %d): %s",
				topRep.Count, topRep.Size, sumCount, sumSize, partCount, partSize, strings.Join(detail, "; ")))
		}
		topPaths := map[string]bool{}
		for _, kp := range topRep.Paths {
			topPaths[kp] = true
		}
		for kp := range all {
			if !topPaths[kp] {
				add("C14", "pipestance-report-differs-from-fork-reports", fmt.Sprintf("_vdrkill of the pipestance does not list %s, which a fork's report lists", strings.TrimPrefix(kp, r.PsDir+"/")))
				break
			}
		}
	}
	if len(c.Res.Violations) > 0 || c.Keep || c.Res.Sample == nil {
		s := describeRun(r, true)
		s["vdrmode"] = mode
		c.Res.Sample = s
	}
}

func init() {
	Profiles["C04"] = func(c *Ctx) { vdrCase(c, "C04") }
	Profiles["C14"] = func(c *Ctx) { vdrCase(c, "C14") }
}

// templateVdrProg builds a program from the family that the VDR logic is about:
// an (optionally mapped, optionally volatile) producer of files, whose outputs
// are retained and/or consumed by downstream stages and/or returned by the
// top-level pipeline.  All choices come from the plan tape.
func templateVdrProg(plan *Tape) *Prog {
	p := &Prog{FileTypes: []string{"txt", "json"}}
	intT, txt := Ty{Base: "int"}, Ty{Base: "txt"}
	ref := func(call string, path ...string) *Expr { return &Expr{Kind: ERef, Call: call, Path: path} }
	list := &StageDef{Name: "LIST", SrcKind: "comp", Ins: []Field{{"n", intT}}, Outs: []Field{{"items", intT.ArrayOf()}}}
	prod := &StageDef{Name: "PRODUCE", SrcKind: "comp", Ins: []Field{{"x", intT}},
		Outs: []Field{{"data", txt}, {"more", txt.ArrayOf()}, {"num", intT}}}
	if plan.Draw(3) == 0 {
		prod.Split = true
		prod.ChunkIns = []Field{{"c0", intT}}
		prod.ChunkOuts = []Field{{"part", txt}}
	}
	switch plan.Draw(4) {
	case 0:
		prod.Volatile = "strict"
	case 1:
		prod.Volatile = "false"
	}
	switch plan.Draw(5) {
	case 0:
		prod.Retain = []string{"data"}
	case 1:
		prod.Retain = []string{"data", "more"}
	case 2:
		prod.Retain = []string{"more"}
	}
	// files inside structs, reached by projection through the struct, through a
	// typed map of structs and through an array of structs
	structs := plan.Draw(3) == 0
	recT := Ty{Base: "REC"}
	if structs {
		p.Structs = []*StructDef{{Name: "REC", Fields: []Field{{"f", txt}, {"n", intT}, {"g", Ty{Base: "json"}}}}}
		prod.Outs = append(prod.Outs, Field{"rec", recT}, Field{"recs", recT.MapOf()}, Field{"reca", recT.ArrayOf()})
		if plan.Draw(3) == 0 {
			prod.Retain = append(prod.Retain, []string{"rec", "recs", "reca"}[plan.Draw(3)])
		}
	}
	p.Stages = []*StageDef{list, prod}
	pl := &PipelineDef{Name: "TOPV", Ins: []Field{{"n", intT}}}
	pl.Calls = append(pl.Calls, &CallDef{Callee: "LIST", Id: "LIST", Binds: []Bind{{"n", &Expr{Kind: ERef, Self: true, Path: []string{"n"}}, false}}})
	pc := &CallDef{Callee: "PRODUCE", Id: "PRODUCE", Volatile: plan.Draw(2) == 0}
	mapped := plan.Draw(4) > 0
	dataT := txt
	if mapped {
		pc.Mapped = true
		dataT = txt.ArrayOf()
		if plan.Draw(3) > 0 {
			pc.Binds = []Bind{{"x", ref("LIST", "items"), true}} // run-time fork count
		} else {
			pc.Binds = []Bind{{"x", &Expr{Kind: ELit, Val: []interface{}{int64(5), int64(6), int64(7)}, T: intT.ArrayOf()}, true}}
		}
	} else {
		pc.Binds = []Bind{{"x", &Expr{Kind: ERef, Self: true, Path: []string{"n"}}, false}}
	}
	pl.Calls = append(pl.Calls, pc)
	ncons := plan.Draw(4)
	for i := 0; i < ncons; i++ {
		name := fmt.Sprintf("CONSUME%d", i)
		cs := &StageDef{Name: name, SrcKind: "comp", Ins: []Field{{"f", dataT}, {"k", intT}}, Outs: []Field{{"done", intT}}}
		if plan.Draw(3) == 0 {
			cs.Outs = append(cs.Outs, Field{"own", txt})
		}
		if plan.Draw(2) == 0 {
			// a splitting consumer: its chunks and its join read the files long
			// after its split phase has completed
			cs.Split = true
			cs.ChunkIns = []Field{{"c0", intT}}
			cs.ChunkOuts = []Field{{"part", intT}}
		}
		p.Stages = append(p.Stages, cs)
		c := &CallDef{Callee: name, Id: name, Binds: []Bind{{"f", ref("PRODUCE", "data"), false}, {"k", ref("LIST", "items"), false}}}
		c.Binds[1] = Bind{"k", &Expr{Kind: ELit, Val: int64(i), T: intT}, false}
		if i > 0 && plan.Draw(2) == 0 {
			// a chain: the second consumer also waits for the first
			c.Binds[1] = Bind{"k", ref(fmt.Sprintf("CONSUME%d", i-1), "done"), false}
		}
		pl.Calls = append(pl.Calls, c)
	}
	if structs {
		// consumers and top-level outputs of the projected files
		type proj struct {
			name string
			t    Ty
			e    *Expr
		}
		wrap := func(t Ty) Ty {
			if mapped {
				return t.ArrayOf()
			}
			return t
		}
		projs := []proj{
			{"rf", wrap(txt), ref("PRODUCE", "rec", "f")},
			{"rsf", wrap(txt.MapOf()), ref("PRODUCE", "recs", "f")},
			{"rag", wrap(Ty{Base: "json"}.ArrayOf()), ref("PRODUCE", "reca", "g")},
			{"rwhole", wrap(recT), ref("PRODUCE", "rec")},
			{"rswhole", wrap(recT.MapOf()), ref("PRODUCE", "recs")},
		}
		for i, pj := range projs {
			switch plan.Draw(4) {
			case 0:
				name := fmt.Sprintf("PCONS%d", i)
				p.Stages = append(p.Stages, &StageDef{Name: name, SrcKind: "comp", Ins: []Field{{"f", pj.t}}, Outs: []Field{{"done", intT}}})
				pl.Calls = append(pl.Calls, &CallDef{Callee: name, Id: name, Binds: []Bind{{"f", pj.e, false}}})
			case 1:
				pl.Outs = append(pl.Outs, Field{pj.name, pj.t})
				pl.Ret = append(pl.Ret, Bind{pj.name, pj.e, false})
			}
		}
		if plan.Draw(4) == 0 {
			pl.Retain = append(pl.Retain, ref("PRODUCE", "reca"))
		}
	}
	if plan.Draw(3) == 0 {
		// an output whose name is the beginning of another one's ("da", "data"), bound by
		// a consumer of its own and holding no file at all (null)
		prod.Outs = append(prod.Outs, Field{"da", txt})
		p.NullOuts = map[string]bool{"PRODUCE.da": true}
		p.Stages = append(p.Stages, &StageDef{Name: "PFX", SrcKind: "comp", Ins: []Field{{"f", dataT}}, Outs: []Field{{"done", intT}}})
		pl.Calls = append(pl.Calls, &CallDef{Callee: "PFX", Id: "PFX", Binds: []Bind{{"f", ref("PRODUCE", "da"), false}}})
	}
	if plan.Draw(3) == 0 {
		// the producer bound as a whole (all its outputs as one struct) to a consumer
		// and/or to a top-level output
		whole := &StructDef{Name: "PRODOUT", Fields: []Field{{"data", txt}, {"more", txt.ArrayOf()}, {"num", intT}}}
		p.Structs = append(p.Structs, whole)
		wt := Ty{Base: "PRODOUT"}
		if mapped {
			wt = wt.ArrayOf()
		}
		if plan.Draw(3) > 0 {
			p.Stages = append(p.Stages, &StageDef{Name: "WHOLE", SrcKind: "comp", Ins: []Field{{"p", wt}}, Outs: []Field{{"done", intT}}})
			pl.Calls = append(pl.Calls, &CallDef{Callee: "WHOLE", Id: "WHOLE", Binds: []Bind{{"p", ref("PRODUCE"), false}}})
		}
		if plan.Draw(2) == 0 {
			pl.Outs = append(pl.Outs, Field{"whole", wt})
			pl.Ret = append(pl.Ret, Bind{"whole", ref("PRODUCE"), false})
		}
	}
	if plan.Draw(3) == 0 {
		pl.Retain = append(pl.Retain, ref("PRODUCE", "more"))
	}
	pl.Outs = append(pl.Outs, Field{"count", intT.ArrayOf()})
	pl.Ret = append(pl.Ret, Bind{"count", ref("LIST", "items"), false})
	if plan.Draw(3) == 0 {
		pl.Outs = append(pl.Outs, Field{"data", dataT})
		pl.Ret = append(pl.Ret, Bind{"data", ref("PRODUCE", "data"), false})
	}
	if ncons > 0 && plan.Draw(2) == 0 {
		pl.Outs = append(pl.Outs, Field{"last", intT})
		pl.Ret = append(pl.Ret, Bind{"last", ref(fmt.Sprintf("CONSUME%d", ncons-1), "done"), false})
	}
	p.Pipelines = []*PipelineDef{pl}
	p.Top = &CallDef{Callee: "TOPV", Id: "TOPV", Binds: []Bind{{"n", &Expr{Kind: ELit, Val: int64(3 + plan.Draw(5)), T: intT}, false}}}
	return p
}
