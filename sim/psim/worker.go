package psim

import (
	"flag"
	"fmt"
	"os"
	"strings"
	"testing"
	"testing/synctest"
	"time"
)

var (
	flagMode  = flag.String("psim.mode", "smoke", "worker mode")
	flagRoot  = flag.String("psim.root", "", "scratch root of this worker")
	flagRepo  = flag.String("psim.repo", "/repo", "repository root")
	flagSeed  = flag.Uint64("psim.seed", 1, "first seed")
	flagN     = flag.Int("psim.n", 1, "number of runs")
	flagOut   = flag.String("psim.out", "", "output file")
	flagTrace = flag.Bool("psim.trace", false, "print schedule trace")
)

// InBubble runs f inside a fresh synctest bubble and survives the end-of-bubble
// deadlock panic caused by the goroutines that the finished run leaves parked.
func InBubble(t *testing.T, f func()) {
	defer func() {
		if r := recover(); r != nil {
			s := fmt.Sprint(r)
			if !strings.Contains(s, "deadlock") {
				panic(r)
			}
		}
	}()
	synctest.Test(t, func(t *testing.T) { f() })
}

func WorkerMain(t *testing.T) {
	if *flagRoot == "" {
		t.Fatal("need -psim.root")
	}
	if err := os.MkdirAll(*flagRoot, 0755); err != nil {
		t.Fatal(err)
	}
	if err := SetupBase(*flagRoot, *flagRepo); err != nil {
		t.Fatal(err)
	}
	switch *flagMode {
	case "smoke":
		smoke(t)
	default:
		t.Fatalf("unknown mode %s", *flagMode)
	}
}

func smokeProg() *Prog {
	intT := Ty{Base: "int"}
	strT := Ty{Base: "string"}
	p := &Prog{}
	p.Stages = []*StageDef{
		{Name: "MAKE", Ins: []Field{{"n", intT}}, Outs: []Field{{"xs", intT.ArrayOf()}, {"s", strT}}, SrcKind: "comp"},
		{Name: "WORK", Ins: []Field{{"x", intT}, {"s", strT}}, Outs: []Field{{"y", intT}}, SrcKind: "comp",
			Split: true, ChunkIns: []Field{{"c", intT}}, ChunkOuts: []Field{{"part", intT}}},
		{Name: "SUM", Ins: []Field{{"ys", intT.ArrayOf()}}, Outs: []Field{{"total", intT}}, SrcKind: "exec"},
	}
	ref := func(call string, path ...string) *Expr { return &Expr{Kind: ERef, Call: call, Path: path} }
	self := func(path ...string) *Expr { return &Expr{Kind: ERef, Self: true, Path: path} }
	p.Pipelines = []*PipelineDef{{
		Name: "TOP", Ins: []Field{{"n", intT}}, Outs: []Field{{"total", intT}, {"ys", intT.ArrayOf()}},
		Calls: []*CallDef{
			{Callee: "MAKE", Id: "MAKE", Binds: []Bind{{"n", self("n"), false}}},
			{Callee: "WORK", Id: "WORK", Mapped: true, Binds: []Bind{{"x", ref("MAKE", "xs"), true}, {"s", ref("MAKE", "s"), false}}},
			{Callee: "SUM", Id: "SUM", Binds: []Bind{{"ys", ref("WORK", "y"), false}}},
		},
		Ret: []Bind{{"total", ref("SUM", "total"), false}, {"ys", ref("WORK", "y"), false}},
	}}
	p.Top = &CallDef{Callee: "TOP", Id: "TOP", Binds: []Bind{{"n", &Expr{Kind: ELit, Val: int64(3), T: intT}, false}}}
	return p
}

func smoke(t *testing.T) {
	start := time.Now()
	sigs := map[uint64]map[string]int{}
	for i := 0; i < *flagN; i++ {
		seed := *flagSeed + uint64(i)
		for rep := 0; rep < 2; rep++ {
			var r *Run
			InBubble(t, func() {
				cfg := &RunCfg{Root: *flagRoot, Prog: smokeProg(),
					FCfg:  &FCfg{MaxLen: 3, MaxChunks: 2, Salt: "smoke"},
					Flags: []string{"--localcores=4", "--localmem=8", "--vdrmode=rolling"},
					Sched: NewTape(seed), MaxSteps: 20000, WMrp: 1, WJob: 1, WAux: 1, WTime: 0,
					KeepTrace: *flagTrace}
				r = NewRun(cfg)
				r.Execute()
			})
			outs, err := r.ReadTopOuts()
			sig := fmt.Sprintf("steps=%d hash=%x exit=%v outs=%s err=%v jobs=%d viol=%d stalled=%v simtime=%v",
				r.Steps, r.SchedHash, r.ExitCodes, Canon(outs), err, len(r.Jobs), len(r.Violations), r.Stalled, r.SimTime)
			if sigs[seed] == nil {
				sigs[seed] = map[string]int{}
			}
			sigs[seed][sig]++
			if rep == 0 && (i < 3 || *flagTrace) {
				t.Log(seed, sig)
				for _, v := range r.Violations {
					t.Log("  VIOLATION", v)
				}
				if *flagTrace {
					for _, e := range r.Trace {
						t.Logf("  %4d %-60s %s %s", e.Step, e.Task, e.Kind, e.Detail)
					}
					t.Log(r.outBuf.String())
				}
			}
		}
	}
	bad := 0
	for s, m := range sigs {
		if len(m) != 1 {
			bad++
			t.Logf("seed %d: %d distinct signatures", s, len(m))
			for k := range m {
				t.Log("   ", k)
			}
		}
	}
	t.Logf("%d seeds x2, nondeterministic seeds: %d, wall %v", len(sigs), bad, time.Since(start))
}
