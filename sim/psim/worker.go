package psim

import (
	"encoding/json"
	"flag"
	"fmt"
	"os"
	"path"
	"sort"
	"strings"
	"testing"
	"testing/synctest"
	"time"
)

var (
	flagMode    = flag.String("psim.mode", "run", "worker mode: run, replay, smoke")
	flagProfile = flag.String("psim.profile", "C01", "profile (property id)")
	flagTier    = flag.String("psim.tier", "quick", "quick or thorough")
	flagRoot    = flag.String("psim.root", "", "scratch root of this worker")
	flagRepo    = flag.String("psim.repo", "/repo", "repository root")
	flagSeed    = flag.Uint64("psim.seed", 1, "first case seed")
	flagStride  = flag.Uint64("psim.stride", 1, "seed stride (number of workers)")
	flagN       = flag.Int("psim.n", 1000000, "maximal number of cases")
	flagBudget  = flag.Duration("psim.budget", 30*time.Second, "wall-clock budget for this worker")
	flagOut     = flag.String("psim.out", "", "result file (JSON lines)")
	flagReplay  = flag.String("psim.replay", "", "replay file")
	flagTrace   = flag.Bool("psim.trace", false, "print schedule trace")
	flagShrink  = flag.Duration("psim.shrink", 45*time.Second, "shrink budget per violation")
	flagMaxViol = flag.Int("psim.maxviol", 3, "stop after this many violating cases")
	flagKnown   = flag.String("psim.known", "", "comma separated PROPERTY/oracle pairs listed as known findings")
)

// InBubble runs f inside a fresh synctest bubble and survives the end-of-bubble
// deadlock panic caused by the goroutines that the finished run leaves parked.
func InBubble(t *testing.T, f func()) {
	defer func() {
		if r := recover(); r != nil {
			s := fmt.Sprint(r)
			if !strings.Contains(s, "deadlock") {
				panic(r)
			}
		}
	}()
	synctest.Test(t, func(t *testing.T) { f() })
}

// Case is one seeded test case of a profile: it may perform several runs.
type CaseResult struct {
	Seed       uint64         `json:"seed"`
	Profile    string         `json:"profile"`
	Runs       int            `json:"runs"`
	Steps      int            `json:"steps"`
	SimTimeMs  int64          `json:"sim_ms"`
	Jobs       int            `json:"jobs"`
	Class      string         `json:"class"`
	Violations []Violation    `json:"violations,omitempty"`
	Probes     map[string]int `json:"probes,omitempty"`
	Faults     map[string]int `json:"faults,omitempty"`
	Shape      string         `json:"shape"` // hash of the program
	Sched      string         `json:"sched"` // hash of the schedule(s)
	Hist       string         `json:"hist"`  // hash of the event histories
	States     []string       `json:"-"`
	Nontrivial bool           `json:"nontrivial"`
	Sample     interface{}    `json:"sample,omitempty"`
	Notes      []string       `json:"notes,omitempty"`
	PlanLen    int            `json:"plan_len"`
	SchedLen   int            `json:"sched_len"`
}

func (c *CaseResult) addRun(r *Run) {
	c.Runs++
	c.Steps += r.Steps
	c.SimTimeMs += r.SimTime.Milliseconds()
	c.Jobs += len(r.Jobs)
	for k, v := range r.Probes {
		c.Probes[k] += v
	}
	for k, v := range r.Faults {
		c.Faults[k] += v
	}
	c.Sched = fmt.Sprintf("%x", hash64(c.Sched, fmt.Sprint(r.SchedHash)))
	c.Hist = fmt.Sprintf("%x", hash64(c.Hist, r.HistHash))
	for _, v := range r.Violations {
		c.Violations = append(c.Violations, v)
	}
}

type Ctx struct {
	T     *testing.T
	Root  string
	Tier  string
	Plan  *Tape
	Sched *Tape
	Res   *CaseResult
	Keep  bool // keep traces (replay / sample)
}

func (c *Ctx) thorough() bool { return c.Tier == "thorough" }

// RunOnce executes one simulated run in its own bubble.
func (c *Ctx) RunOnce(cfg *RunCfg, setup func(r *Run)) *Run {
	cfg.Root = c.Root
	cfg.Sched = c.Sched
	cfg.KeepTrace = c.Keep || os.Getenv("VERIF_RUNLOG") != ""
	var r *Run
	InBubble(c.T, func() {
		r = NewRun(cfg)
		if setup != nil {
			setup(r)
		}
		r.Execute()
	})
	c.Res.addRun(r)
	if p := os.Getenv("VERIF_RUNLOG"); p != "" {
		// experiments: one line per run (for bisecting a divergence between processes)
		if f, err := os.OpenFile(p, os.O_APPEND|os.O_CREATE|os.O_WRONLY, 0644); err == nil {
			fmt.Fprintf(f, "run steps=%d sched=%x class=%s jobs=%d plan=%d inc=%d crashes=%v\n", r.Steps, r.SchedHash, r.Class(), len(r.Jobs), len(c.Plan.Rec), r.Inc, cfg.Crashes)
			if os.Getenv("VERIF_RUNLOG_TRACE") != "" {
				for _, e := range r.Trace {
					fmt.Fprintf(f, "  %d %s %s %s\n", e.Step, e.Task, e.Kind, e.Detail)
				}
			}
			f.Close()
		}
	}
	if ExportHook != nil {
		ExportHook(r)
	}
	return r
}

type ProfileFn func(c *Ctx)

var Profiles = map[string]ProfileFn{}

func runCase(t *testing.T, profile string, seed uint64, plan, sched *Tape, tier string, keep bool) *CaseResult {
	fn := Profiles[profile]
	if fn == nil {
		t.Fatalf("unknown profile %s", profile)
	}
	res := &CaseResult{Seed: seed, Profile: profile, Probes: map[string]int{}, Faults: map[string]int{}}
	ctx := &Ctx{T: t, Root: *flagRoot, Tier: tier, Plan: plan, Sched: sched, Res: res, Keep: keep}
	fn(ctx)
	res.PlanLen, res.SchedLen = len(plan.Rec), len(sched.Rec)
	// only this property's violations count for this profile; SIM problems always do
	return res
}

// ReplayFile is the on-disk form of a (minimised) failing case.
type ReplayFile struct {
	Profile   string      `json:"profile"`
	Tier      string      `json:"tier"`
	Seed      uint64      `json:"seed"`
	Plan      []uint32    `json:"plan_tape"`
	Sched     []uint32    `json:"sched_tape"`
	Violation Violation   `json:"violation"`
	Minimised bool        `json:"minimised"`
	Original  *ReplayFile `json:"original,omitempty"`
	Info      interface{} `json:"info,omitempty"`
}

func hasViolation(res *CaseResult, prop, oracle string) *Violation {
	for i, v := range res.Violations {
		if v.Property == prop && (oracle == "" || v.Oracle == oracle) {
			return &res.Violations[i]
		}
	}
	return nil
}

func trimZeros(v []uint32) []uint32 {
	n := len(v)
	for n > 0 && v[n-1] == 0 {
		n--
	}
	return append([]uint32(nil), v[:n]...)
}

// shrink minimises the tapes while the same (property, oracle) violation persists.
func shrink(t *testing.T, profile, tier string, seed uint64, plan, sched []uint32, prop, oracle string, budget time.Duration) ([]uint32, []uint32, int) {
	deadline := time.Now().Add(budget)
	attempts := 0
	try := func(p, s []uint32) bool {
		if time.Now().After(deadline) {
			return false
		}
		attempts++
		res := runCase(t, profile, seed, ReplayTape(p), ReplayTape(s), tier, false)
		return hasViolation(res, prop, oracle) != nil
	}
	plan, sched = trimZeros(plan), trimZeros(sched)
	shrinkVec := func(v []uint32, isSched bool) []uint32 {
		mk := func(nv []uint32) bool {
			if isSched {
				return try(plan, nv)
			}
			return try(nv, sched)
		}
		// 1. all zeros
		if len(v) > 0 && mk(nil) {
			return nil
		}
		// 2. longest zero suffix (binary search on the cut point)
		lo, hi := 0, len(v)
		for lo < hi && time.Now().Before(deadline) {
			mid := (lo + hi) / 2
			if mk(trimZeros(v[:mid])) {
				hi = mid
			} else {
				lo = mid + 1
			}
		}
		if hi < len(v) {
			v = trimZeros(v[:hi])
		}
		// 3. zero blocks, then single entries
		for bs := len(v) / 2; bs >= 1 && time.Now().Before(deadline); bs /= 2 {
			for i := 0; i+bs <= len(v) && time.Now().Before(deadline); i += bs {
				allZero := true
				for _, x := range v[i : i+bs] {
					if x != 0 {
						allZero = false
					}
				}
				if allZero {
					continue
				}
				nv := append([]uint32(nil), v...)
				for k := i; k < i+bs; k++ {
					nv[k] = 0
				}
				if mk(trimZeros(nv)) {
					v = trimZeros(nv)
				}
			}
			if bs == 1 {
				break
			}
		}
		// 4. lower remaining values
		for i := 0; i < len(v) && time.Now().Before(deadline); i++ {
			for v[i] > 1 {
				nv := append([]uint32(nil), v...)
				nv[i] = v[i] / 2
				if !mk(nv) {
					break
				}
				v = nv
			}
		}
		return v
	}
	sched = shrinkVec(sched, true)
	plan = shrinkVec(plan, false)
	sched = shrinkVec(sched, true)
	return plan, sched, attempts
}

type workerSummary struct {
	Summary      bool           `json:"summary"`
	Profile      string         `json:"profile"`
	Tier         string         `json:"tier"`
	Cases        int            `json:"cases"`
	Runs         int            `json:"runs"`
	Steps        int            `json:"steps"`
	SimMs        int64          `json:"sim_ms"`
	WallS        float64        `json:"wall_s"`
	Classes      map[string]int `json:"classes"`
	Probes       map[string]int `json:"probes"`
	Faults       map[string]int `json:"faults"`
	Shapes       []string       `json:"shapes"`
	Scheds       []string       `json:"scheds"`
	Nontriv      []string       `json:"nontrivial"`
	Samples      []interface{}  `json:"samples"`
	Violating    []string       `json:"violating"`
	Observations []string       `json:"observations"`
	KnownSeen    map[string]int `json:"known_seen"`
	Seeds        []uint64       `json:"seeds"`
	Notes        map[string]int `json:"notes"`
	Other        map[string]int `json:"other_property_findings"`
}

func WorkerMain(t *testing.T) {
	if *flagRoot == "" {
		t.Fatal("need -psim.root")
	}
	if err := os.MkdirAll(*flagRoot, 0755); err != nil {
		t.Fatal(err)
	}
	if err := SetupBase(*flagRoot, *flagRepo); err != nil {
		t.Fatal(err)
	}
	switch *flagMode {
	case "smoke":
		smoke(t)
	case "run":
		workerRun(t)
	case "replay":
		workerReplay(t)
	case "export":
		workerExport(t)
	case "sig":
		// determinism self-test: one line per case with hashes of everything observable
		for i := 0; i < *flagN; i++ {
			seed := *flagSeed + uint64(i)
			res := runCase(t, *flagProfile, seed, NewTape(seed*2+1), NewTape(seed*2+2), *flagTier, false)
			fmt.Printf("SIG %s %d runs=%d steps=%d sched=%s hist=%s class=%s viol=%d jobs=%d\n", *flagProfile, seed,
				res.Runs, res.Steps, res.Sched, res.Hist, res.Class, len(res.Violations), res.Jobs)
		}
	case "gen":
		// print generated programs
		for i := 0; i < *flagN; i++ {
			seed := *flagSeed + uint64(i)
			var p *Prog
			switch *flagProfile {
			case "narrow":
				p = templateNarrowProg(NewTape(seed*2 + 1))
			case "forkorder":
				p = templateForkOrderProg(NewTape(seed*2 + 1))
			case "disabled":
				p = templateDisabledProg(NewTape(seed*2 + 1))
			case "vdr":
				p = templateVdrProg(NewTape(seed*2 + 1))
			case "deepdisabled":
				p = templateDeepDisabledProg(NewTape(seed*2 + 1))
			case "nested":
				p = templateNestedProg(NewTape(seed*2 + 1))
			case "structref":
				p = templateStructRefProg(NewTape(seed*2 + 1))
			default:
				p = Generate(NewTape(seed*2+1), DefaultGenCfg())
			}
			fmt.Printf("# ---- seed %d ----\n%s\n", seed, p.Source())
		}
	default:
		t.Fatalf("unknown mode %s", *flagMode)
	}
}

func workerRun(t *testing.T) {
	start := time.Now()
	var out *os.File
	if *flagOut != "" {
		f, err := os.Create(*flagOut)
		if err != nil {
			t.Fatal(err)
		}
		defer f.Close()
		out = f
	}
	emit := func(v interface{}) {
		b, _ := json.Marshal(v)
		if out != nil {
			out.Write(append(b, '\n'))
		} else {
			fmt.Println(string(b))
		}
	}
	sum := &workerSummary{Summary: true, Profile: *flagProfile, Tier: *flagTier,
		Classes: map[string]int{}, Probes: map[string]int{}, Faults: map[string]int{},
		Notes: map[string]int{}, Other: map[string]int{}}
	shapes, scheds, nontriv := map[string]bool{}, map[string]bool{}, map[string]bool{}
	nviol := 0
	known := map[string]bool{}
	for _, k := range strings.Split(*flagKnown, ",") {
		if k != "" {
			known[k] = true
		}
	}
	knownSeen := map[string]int{}
	for i := 0; i < *flagN; i++ {
		if time.Since(start) > *flagBudget {
			break
		}
		seed := *flagSeed + uint64(i)*(*flagStride)
		plan, sched := NewTape(seed*2+1), NewTape(seed*2+2)
		res := runCase(t, *flagProfile, seed, plan, sched, *flagTier, false)
		sum.Cases++
		sum.Runs += res.Runs
		sum.Steps += res.Steps
		sum.SimMs += res.SimTimeMs
		sum.Classes[res.Class]++
		sum.Seeds = append(sum.Seeds, seed)
		for k, v := range res.Probes {
			sum.Probes[k] += v
		}
		for k, v := range res.Faults {
			sum.Faults[k] += v
		}
		for _, n := range res.Notes {
			sum.Notes[n]++
		}
		shapes[res.Shape] = true
		scheds[res.Sched] = true
		if res.Nontrivial {
			nontriv[res.Shape+"/"+res.Sched] = true
		}
		if res.Sample != nil && len(sum.Samples) < 2 {
			sum.Samples = append(sum.Samples, res.Sample)
		}
		var own *Violation
		for k, v := range res.Violations {
			if known[v.Property+"/"+v.Oracle] {
				knownSeen[v.Property+"/"+v.Oracle]++
				if knownSeen[v.Property+"/"+v.Oracle] > 1 {
					continue // one replay file per known finding and worker is enough
				}
			}
			if v.Property == *flagProfile || v.Property == "SIM" || (v.Property == "OBS" && own == nil && len(sum.Observations) < 2) {
				if own == nil {
					own = &res.Violations[k]
				}
			} else {
				sum.Other[v.Property+"/"+v.Oracle]++
			}
		}
		if own != nil {
			if own.Property != "OBS" && !known[own.Property+"/"+own.Oracle] {
				nviol++
			}
			rf := &ReplayFile{Profile: *flagProfile, Tier: *flagTier, Seed: seed,
				Plan: plan.Rec, Sched: sched.Rec, Violation: *own}
			p2, s2, attempts := shrink(t, *flagProfile, *flagTier, seed, plan.Rec, sched.Rec, own.Property, own.Oracle, *flagShrink)
			min := &ReplayFile{Profile: *flagProfile, Tier: *flagTier, Seed: seed, Plan: p2, Sched: s2,
				Minimised: true, Original: rf}
			// re-run the minimised case with traces to fill in the report
			res2 := runCase(t, *flagProfile, seed, ReplayTape(p2), ReplayTape(s2), *flagTier, true)
			if v := hasViolation(res2, own.Property, own.Oracle); v != nil {
				min.Violation = *v
				min.Info = map[string]interface{}{"shrink_attempts": attempts, "sample": res2.Sample, "notes": res2.Notes}
			} else {
				// minimisation did not reproduce: fall back to the original
				min = rf
				min.Info = map[string]interface{}{"note": "minimised tapes did not reproduce; original kept"}
			}
			name := fmt.Sprintf("%s-seed%d.replay.json", *flagProfile, seed)
			dir := path.Dir(*flagOut)
			if *flagOut == "" {
				dir = *flagRoot
			}
			fp := path.Join(dir, name)
			b, _ := json.MarshalIndent(min, "", " ")
			os.WriteFile(fp, b, 0644)
			if own.Property == "OBS" {
				sum.Observations = append(sum.Observations, fp)
				emit(map[string]interface{}{"observation": min.Violation, "replay": fp, "seed": seed})
			} else {
				sum.Violating = append(sum.Violating, fp)
				emit(map[string]interface{}{"violation": min.Violation, "replay": fp, "seed": seed})
			}
			if nviol >= *flagMaxViol {
				break
			}
		}
	}
	for k := range shapes {
		sum.Shapes = append(sum.Shapes, k)
	}
	for k := range scheds {
		sum.Scheds = append(sum.Scheds, k)
	}
	for k := range nontriv {
		sum.Nontriv = append(sum.Nontriv, k)
	}
	sort.Strings(sum.Shapes)
	sort.Strings(sum.Scheds)
	sort.Strings(sum.Nontriv)
	sum.WallS = time.Since(start).Seconds()
	sum.KnownSeen = knownSeen
	emit(sum)
}

func workerReplay(t *testing.T) {
	b, err := os.ReadFile(*flagReplay)
	if err != nil {
		t.Fatal(err)
	}
	var rf ReplayFile
	if err := json.Unmarshal(b, &rf); err != nil {
		t.Fatal(err)
	}
	tier := rf.Tier
	if tier == "" {
		tier = "quick"
	}
	sigs := map[string]bool{}
	var last *CaseResult
	for i := 0; i < 2; i++ {
		res := runCase(t, rf.Profile, rf.Seed, ReplayTape(rf.Plan), ReplayTape(rf.Sched), tier, i == 0 || *flagTrace)
		sigs[fmt.Sprintf("%s|%s|%s", res.Sched, res.Shape, jsonString(res.Violations))] = true
		last = res
	}
	v := hasViolation(last, rf.Violation.Property, rf.Violation.Oracle)
	outcome := map[string]interface{}{"replayed": true, "deterministic": len(sigs) == 1, "reproduced": v != nil}
	if v != nil {
		outcome["violation"] = v
	}
	if *flagTrace {
		outcome["sample"] = last.Sample
	}
	ob, _ := json.MarshalIndent(outcome, "", " ")
	fmt.Println(string(ob))
	if v != nil {
		fmt.Printf("VIOLATION property=%s replay=%s\n", v.Property, *flagReplay)
	}
}

func smoke(t *testing.T) {
	t.Log("smoke mode removed; use -psim.mode run")
}

// workerExport replays a case and writes what is needed to reproduce its first run
// with the real mrp binary: the program (all stages as exec stages driven by
// tools/realstage.py) and a table of the outputs every job produced.
func workerExport(t *testing.T) {
	b, err := os.ReadFile(*flagReplay)
	if err != nil {
		t.Fatal(err)
	}
	var rf ReplayFile
	if err := json.Unmarshal(b, &rf); err != nil {
		t.Fatal(err)
	}
	tier := rf.Tier
	if tier == "" {
		tier = "quick"
	}
	ExportHook = func(r *Run) {
		if *flagOut == "" {
			return
		}
		os.MkdirAll(*flagOut, 0755)
		p := *r.Prog
		var stages []*StageDef
		for _, s := range p.Stages {
			c := *s
			c.SrcKind = "exec"
			stages = append(stages, &c)
		}
		p.Stages = stages
		src := strings.ReplaceAll(p.Source(), "\"stagebin ", "\"realstage.py ")
		os.WriteFile(path.Join(*flagOut, "pipeline.mro"), []byte(src), 0644)
		type row struct {
			Stage string      `json:"stage"`
			Phase string      `json:"phase"`
			Args  interface{} `json:"args"`
			Outs  interface{} `json:"outs"`
		}
		var rows []row
		for _, j := range r.Jobs {
			if j.Outs != nil {
				a, _ := j.Args.(map[string]interface{})
				rows = append(rows, row{j.Stage, j.Phase, stripDunder(a), j.Outs})
			}
		}
		tb, _ := json.MarshalIndent(rows, "", " ")
		os.WriteFile(path.Join(*flagOut, "outs_table.json"), tb, 0644)
		fb, _ := json.Marshal(r.Cfg.Flags)
		os.WriteFile(path.Join(*flagOut, "flags.json"), fb, 0644)
		ExportHook = nil
	}
	runCase(t, rf.Profile, rf.Seed, ReplayTape(rf.Plan), ReplayTape(rf.Sched), tier, true)
	fmt.Println("exported to", *flagOut)
}

// ExportHook, if set, is called with every finished run.
var ExportHook func(r *Run)
