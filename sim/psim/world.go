package psim

import (
	"archive/zip"
	"encoding/json"
	"fmt"
	"io"
	"os"
	"path"
	"path/filepath"
	"sort"
	"strings"
	"syscall"
	"testing/synctest"
	"time"

	"github.com/martian-lang/martian/martian/util"
	"github.com/martian-lang/martian/martian/verifsim/vos"
	"github.com/martian-lang/martian/martian/verifsim/vproc"
	"github.com/martian-lang/martian/martian/verifsim/vrt"
)

// MrpMain is cmd/mrp's real main function (renamed mrpMain by the instrumenter);
// set by the test file overlaid into package main.
var MrpMain func()

// Violation is a failed oracle.
type Violation struct {
	Property string `json:"property"`
	Oracle   string `json:"oracle"`
	Msg      string `json:"msg"`
	Step     int    `json:"step"`
}

// CrashSpec asks for an interruption of the current mrp incarnation when it has
// passed AtGate gates.
type CrashSpec struct {
	Inc    int    `json:"inc"`     // which incarnation (1-based)
	AtGate int    `json:"at_gate"` // after this many gates of that incarnation
	Kind   string `json:"kind"`    // kill, powerloss, sigterm, sigint, torn
	// When, if set, delays the interruption until it holds (evaluated at every step
	// once AtGate gates have passed).
	When func(r *Run) bool `json:"-"`
}

// StallSpec freezes every process for D at controller step AtStep.
type StallSpec struct {
	AtStep int           `json:"at_step"`
	AtJob  int           `json:"at_job,omitempty"`  // if > 0: AtStep counts from the start of the AtJob-th job process
	AtSlow bool          `json:"at_slow,omitempty"` // AtStep counts from the moment a "slow" job is in its long computation
	D      time.Duration `json:"d"`
}

// SchedEntry is one controller decision.
type SchedEntry struct {
	Step   int    `json:"step"`
	Task   string `json:"task"`
	Kind   string `json:"kind"`
	Detail string `json:"detail,omitempty"`
	Of     int    `json:"of"` // number of candidates
	Time   string `json:"t,omitempty"`
}

type RunCfg struct {
	Root             string
	Prog             *Prog
	FCfg             *FCfg
	Flags            []string
	JobMode          string // "local" or a cluster template
	Sched            *Tape
	MaxSteps         int
	MapMode          int
	MapSalt          uint64
	WMrp             int // scheduling weights
	WJob             int
	WAux             int
	WTime            int
	Crashes          []CrashSpec
	JobFaults        map[string]string
	SplitFiles       bool // write the program as call file + included declarations
	RestartTransform string
	ExtraFiles       bool
	QuickRestart     int  // if > 0: the operator restarts after QuickRestart-1 steps of the orphans\' reactions
	LinkDirs         bool // stages may report outputs through a symlinked sub-directory of files/
	DirOutputs       bool // a file-typed output may be a directory holding several files
	// Stalls: at controller step AtStep every process of the machine stops for D of
	// simulated time (a hung file server, a frozen VM): nothing runs, the clock goes on
	Stalls []StallSpec
	// Overrides is the content of the --overrides file: partially qualified node
	// name -> {"force_volatile": bool, "chunk.threads": x, ...}
	Overrides map[string]map[string]interface{}
	// LinkedRoot: the pipestance is reached through a symlinked parent directory
	// (<root>/lnk -> vol); CanonicalPaths: stages may report the physical path
	// (pwd -P) of their output files
	SubDirs        bool // stages may put outputs into a sub-directory of files/ next to unreferenced junk
	LinkedRoot     bool
	CanonicalPaths bool
	AllSlow        bool   // every job computes for ten simulated minutes
	MarkSuperseded bool   // an attempt that finds itself replaced produces recognisably different outputs
	OutKinds       bool   // a file-typed output may be missing, a symlink, or a path outside the pipestance (C13)
	Companions     bool   // stages may write x.idx next to an output file x
	ChunkRes       bool   // splits return per-chunk resource requests
	ChunkVMem bool // ... and per-chunk address space requests
	SlowLabel      string // tasks whose label contains this get SlowDiv times less weight
	SlowDiv        int
	Restarts       int  // maximal number of restarts the operator performs
	KeepTrace      bool // keep the full schedule trace (else only a rolling hash)
	Env            map[string]string
	// Edited invocation for restarts (C15); nil = same.
	RestartProg func(inc int) *Prog
}

type Run struct {
	Cfg           *RunCfg
	Prog          *Prog
	FCfg          *FCfg
	Root          string
	PsDir         string
	RealPs        string // the pipestance directory with symlinks resolved, if that is another name
	MroDir        string
	Inc           int
	Mrp           *vrt.Proc
	Mrps          []*vrt.Proc
	Jobs          []*JobRec
	Steps         int
	Trace         []SchedEntry
	SchedHash     uint64
	Violations    []Violation
	Probes        map[string]int
	Faults        map[string]int // fault kinds that actually fired
	StepHooks     []func()
	OnJobStart    func(j *JobRec)
	PreStart      func()
	ExtraLaunch   func(p *vrt.Proc, c *vproc.Cmd) func() int
	DupJournal    func(j *JobRec) bool
	DropHeartbeat func(j *JobRec) bool
	Files         map[string]*FileRec // files written by stage code, by (real) path
	Logical       map[string]string   // reported path -> real path, where they differ
	Dirs          map[string][]string // directory-valued outputs: reported path -> files written below it
	ExtFiles      map[string]string   // files outside the pipestance (pre-existing data): path -> content
	Start         time.Time
	SimTime       time.Duration
	ExitCodes     []int
	Stalled       bool
	StepLimit     bool
	Cluster       []*ClusterJob // jobs submitted through the (simulated) cluster scheduler
	LastProgress  int           // step at which a job last started or ended, or mrp exited
	progressSig   int
	crashIdx      int
	SubWins       map[string]*subWin // cluster submissions by job directory (relative to the scratch root)
	subTask       map[string]string
	stallIdx      int
	parkedSince   map[*vrt.Task]time.Time
	stallBase     int
	Output        []string // mrp stdout lines
	outBuf        strings.Builder
	Ops           []OpEvent
	Panics        []string
	HistHash      string
}

// FileRec is a file written by stage code.
type FileRec struct {
	Path      string
	Content   string
	Job       *JobRec
	Seq       int
	Extra     bool   // not named by any output
	InDir     string // the directory-valued output this file belongs to
	Logical   string // the path the stage reported, when it differs (through a symlinked directory)
	Tmp       bool   // in the job's temporary directory
	Canonical bool   // the stage reported the physical path (symlinked parent resolved)
	Kind      string // "" regular file; "missing" (named, never created); "symlink"; "outside" (a path outside the pipestance)
	Target    string // for symlinks: the file finally pointed at
}

// ClusterJob is a job handed to the simulated cluster scheduler (qsub).
type ClusterJob struct {
	Id        string
	Inc       int // mrp incarnation which submitted it
	SubmitSeq int
	Rec       *JobRec   // nil until the scheduler starts it
	Proc      *vrt.Proc // nil until started
	Lost      bool      // the scheduler dropped it without running it
}

// Live reports whether the scheduler still knows the job (queued or running).
func (cj *ClusterJob) Live() bool {
	if cj.Lost {
		return false
	}
	if cj.Proc == nil {
		return true
	}
	return !cj.Proc.Exited && !cj.Proc.Dead
}

// OpEvent is an operator/simulator action in the history.
type OpEvent struct {
	Seq    int    `json:"seq"`
	Kind   string `json:"kind"`
	Detail string `json:"detail,omitempty"`
}

func (r *Run) violate(prop, oracle, msg string) {
	for _, v := range r.Violations {
		if v.Property == prop && v.Oracle == oracle && v.Msg == msg {
			return
		}
	}
	r.Violations = append(r.Violations, Violation{prop, oracle, msg, r.Steps})
}

func (r *Run) op(kind, detail string) {
	r.Ops = append(r.Ops, OpEvent{vos.NextSeq(), kind, detail})
}

func (r *Run) jobFault(j *JobRec) string {
	if r.Cfg.JobFaults == nil {
		return ""
	}
	n := r.attemptNo(j)
	key := j.Key() + ":" + j.Phase
	if f, ok := r.Cfg.JobFaults[fmt.Sprintf("%s#%d", key, n)]; ok {
		r.Faults["jobfail:"+f]++
		return f
	}
	if f, ok := r.Cfg.JobFaults[key+"#*"]; ok {
		r.Faults["jobfail:"+f]++
		return f
	}
	return ""
}

func (r *Run) chunkResources(j *JobRec, i int) (float64, float64, float64) {
	if !r.Cfg.ChunkRes {
		return 0, 0, 0
	}
	h := hash64(r.FCfg.Salt, j.Key(), fmt.Sprint(i))
	ths := []float64{0, 1, 2, 0.5, 3, -1, 16, 1.5, 2.5, 4.01}
	mems := []float64{0, 1, 2, 0.25, 5, -2, 64, 1.5, 6.5, 3.99}
	vm := 0.0
	if r.Cfg.ChunkVMem {
		vm = []float64{0, 0, 0, 2, 2.5, -1, 64, 0.75}[(h/128)%8]
	}
	return ths[h%uint64(len(ths))], mems[(h/8)%uint64(len(mems))], vm
}

// fileRec finds the record of a file by its real or its reported path.
func (r *Run) fileRec(p string) *FileRec {
	p = r.given(p)
	if rec := r.Files[p]; rec != nil {
		return rec
	}
	if real, ok := r.Logical[p]; ok {
		return r.Files[real]
	}
	return nil
}

func (r *Run) noteFile(j *JobRec, p, content string) {
	r.Files[p] = &FileRec{Path: p, Content: content, Job: j, Seq: vos.NextSeq()}
}

// extraFiles lets stage code write files that none of its outputs name, and
// scratch files in its temporary directory (profiles with ExtraFiles set).
func (r *Run) extraFiles(j *JobRec, args map[string]interface{}) {
	if !r.Cfg.ExtraFiles {
		return
	}
	h := hash64(r.FCfg.Salt, j.Key(), j.Phase)
	if h%2 == 0 {
		p := path.Join(j.FilesPath, "extra_unreferenced")
		content := fmt.Sprintf("extra|%s|%s", j.Key(), j.Phase)
		if vos.WriteFile(p, []byte(content), 0644) == nil {
			j.check()
			r.Files[p] = &FileRec{Path: p, Content: content, Job: j, Seq: vos.NextSeq(), Extra: true}
		}
	}
	if (h/2)%2 == 0 {
		td := path.Join(j.MetaPath, "tmp")
		if st, err := os.Stat(td); err == nil && st.IsDir() {
			p := path.Join(td, "scratch")
			content := fmt.Sprintf("tmp|%s|%s", j.Key(), j.Phase)
			if vos.WriteFile(p, []byte(content), 0644) == nil {
				j.check()
				r.Files[p] = &FileRec{Path: p, Content: content, Job: j, Seq: vos.NextSeq(), Tmp: true}
			}
		}
	}
}

// abs turns the path of a disk event (relative to the root the disk seam reports
// against) into an absolute one.
func (r *Run) abs(rel string) string {
	if strings.HasPrefix(rel, "/") {
		return rel
	}
	if r.Cfg.LinkedRoot {
		return path.Join(r.Root, "lnk", rel)
	}
	return path.Join(r.Root, rel)
}

// given maps the physical name of something inside the pipestance (symlinked parent
// resolved) to the name under which the pipestance was given to mrp.
func (r *Run) given(x string) string {
	if strings.HasPrefix(x, "../") || strings.HasPrefix(x, "./") {
		// a path relative to the working directory (of mrp and of this process alike)
		if a, err := filepath.Abs(x); err == nil && strings.HasPrefix(a, r.Root+"/") {
			x = a
		}
	}
	if r.RealPs != "" && (x == r.RealPs || strings.HasPrefix(x, r.RealPs+"/")) {
		return r.PsDir + x[len(r.RealPs):]
	}
	return x
}

// givenVal applies given to every string of a value.
func (r *Run) givenVal(v interface{}) interface{} {
	if r.RealPs == "" && !r.Cfg.OutKinds {
		return v
	}
	switch x := v.(type) {
	case string:
		return r.given(x)
	case []interface{}:
		out := make([]interface{}, len(x))
		for i := range x {
			out[i] = r.givenVal(x[i])
		}
		return out
	case map[string]interface{}:
		out := make(map[string]interface{}, len(x))
		for k, e := range x {
			out[k] = r.givenVal(e)
		}
		return out
	}
	return v
}

// normFiles replaces every absolute path inside the pipestance by a token made of
// the content of the file it names, so that F does not depend on directory names.
func (r *Run) normFiles(v interface{}) interface{} {
	switch x := v.(type) {
	case string:
		x = r.given(x)
		if strings.HasPrefix(x, r.PsDir+"/") {
			if st, err := os.Stat(x); err == nil && st.IsDir() {
				return dirToken(x)
			}
			if b, err := os.ReadFile(x); err == nil {
				return "FILE:" + string(b)
			}
			return "MISSING:" + path.Base(x)
		}
		if strings.HasPrefix(x, r.Root+"/") {
			// a file outside the pipestance (pre-existing data below the scratch
			// root): by content too, so that nothing depends on the root's name
			if b, err := os.ReadFile(x); err == nil {
				return "EXTFILE:" + string(b)
			}
			return "EXTMISSING:" + path.Base(x)
		}
		return x
	case []interface{}:
		out := make([]interface{}, len(x))
		for i := range x {
			out[i] = r.normFiles(x[i])
		}
		return out
	case map[string]interface{}:
		out := make(map[string]interface{}, len(x))
		for k, e := range x {
			out[k] = r.normFiles(e)
		}
		return out
	}
	return v
}

// dirToken stands for a directory by the names and contents of the files in it.
func dirToken(dir string) string {
	ents, _ := os.ReadDir(dir)
	var parts []string
	for _, e := range ents {
		b, _ := os.ReadFile(path.Join(dir, e.Name()))
		parts = append(parts, e.Name()+"="+string(b))
	}
	sort.Strings(parts)
	return "DIR:" + strings.Join(parts, ";")
}

// checkArgFiles verifies that every pipestance path named in a job's arguments
// exists with its original content when the job starts (C04 invariant i).
func (r *Run) checkArgFiles(j *JobRec, v interface{}) {
	switch x := v.(type) {
	case string:
		x = r.given(x)
		if kids, isDir := r.Dirs[x]; isDir {
			// a directory-valued argument: every file written below it
			for _, k := range kids {
				rec := r.Files[k]
				b, err := os.ReadFile(path.Join(x, path.Base(k)))
				if err != nil {
					j.MissingFiles = append(j.MissingFiles, strings.TrimPrefix(x, r.PsDir+"/")+"/"+path.Base(k))
				} else if rec != nil && rec.Content != string(b) {
					j.MissingFiles = append(j.MissingFiles, "CHANGED:"+strings.TrimPrefix(x, r.PsDir+"/")+"/"+path.Base(k))
				}
			}
			return
		}
		if strings.HasPrefix(x, r.PsDir+"/") {
			rec := r.fileRec(x)
			b, err := os.ReadFile(x)
			if err != nil {
				// maybe named through a symlinked directory
				if resolved, e2 := filepath.EvalSymlinks(x); e2 == nil {
					b, err = os.ReadFile(resolved)
				}
			}
			if err != nil {
				j.MissingFiles = append(j.MissingFiles, strings.TrimPrefix(x, r.PsDir+"/"))
			} else if rec != nil && rec.Content != string(b) {
				j.MissingFiles = append(j.MissingFiles, "CHANGED:"+strings.TrimPrefix(x, r.PsDir+"/"))
			}
		}
	case []interface{}:
		for _, e := range x {
			r.checkArgFiles(j, e)
		}
	case map[string]interface{}:
		for _, k := range sortedKeys(x) {
			r.checkArgFiles(j, x[k])
		}
	}
}

// ---------------------------------------------------------------------------

type devnull struct{ r *Run }

func (d devnull) Write(b []byte) (int, error) { d.r.outBuf.Write(b); return len(b), nil }
func (d devnull) WriteString(s string) (int, error) {
	d.r.outBuf.WriteString(s)
	return len(s), nil
}

// SetupBase creates the static part of a worker's scratch directory: a fake
// martian installation (job manager configuration, retry configuration) and the
// stage executable.
func SetupBase(root, repo string) error {
	base := path.Join(root, "base")
	for _, d := range []string{"bin", "jobmanagers", "adapters/python"} {
		if err := os.MkdirAll(path.Join(base, d), 0755); err != nil {
			return err
		}
	}
	for _, f := range []string{"config.json", "retry.json"} {
		b, err := os.ReadFile(path.Join(repo, "jobmanagers", f))
		if err != nil {
			return err
		}
		if err := os.WriteFile(path.Join(base, "jobmanagers", f), b, 0644); err != nil {
			return err
		}
	}
	// a cluster job template exercising the command placeholder only
	tmpl := "#!/bin/sh\n# simulated cluster job __MRO_JOB_NAME__ threads=__MRO_THREADS__ mem=__MRO_MEM_GB__\n__MRO_CMD__\n"
	if err := os.WriteFile(path.Join(base, "jobmanagers", "sge.template"), []byte(tmpl), 0644); err != nil {
		return err
	}
	os.WriteFile(path.Join(base, "bin", "mrjob"), []byte("#!/bin/false\n"), 0755)
	os.WriteFile(path.Join(base, "adapters", "python", "martian_shell.py"), []byte("# stub\n"), 0644)
	os.Setenv("MARTIAN_BASE", path.Join(base, "bin"))
	os.Setenv("MRO_FORCE_UUID", "00000000-0000-4000-8000-000000000000")
	os.Setenv("SGE_ROOT", "/sim/sge")
	os.Setenv("SGE_CLUSTER_NAME", "sim")
	os.Setenv("SGE_CELL", "default")
	os.Unsetenv("MROFLAGS")
	os.Unsetenv("MRO_JOBRESOURCES")
	os.Unsetenv("MRO_FULLSTAGERESET")
	os.Unsetenv("MARTIAN_ENTERPRISE")
	os.Unsetenv("MRO_SELF_PROFILE")
	return nil
}

func NewRun(cfg *RunCfg) *Run {
	r := &Run{Cfg: cfg, Prog: cfg.Prog, FCfg: cfg.FCfg, Root: cfg.Root,
		Probes: map[string]int{}, Faults: map[string]int{}, Files: map[string]*FileRec{}, Logical: map[string]string{}, Dirs: map[string][]string{}, ExtFiles: map[string]string{}}
	r.PsDir = path.Join(cfg.Root, "ps")
	if cfg.LinkedRoot {
		r.PsDir = path.Join(cfg.Root, "lnk", "ps")
		r.RealPs = path.Join(cfg.Root, "vol", "ps")
	}
	r.MroDir = path.Join(cfg.Root, "mro")
	return r
}

func (r *Run) writeProgram(p *Prog) error {
	if r.Cfg.SplitFiles {
		tr := ""
		if r.Inc > 1 {
			tr = r.Cfg.RestartTransform
		}
		return r.writeSplit(p, tr)
	}
	os.MkdirAll(r.MroDir, 0755)
	if err := os.WriteFile(path.Join(r.MroDir, "stagebin"), []byte("#!/bin/false\n"), 0755); err != nil {
		return err
	}
	if len(r.Cfg.Overrides) > 0 {
		b, _ := json.MarshalIndent(r.Cfg.Overrides, "", "  ")
		if err := os.WriteFile(path.Join(r.MroDir, "overrides.json"), b, 0644); err != nil {
			return err
		}
	}
	return os.WriteFile(path.Join(r.MroDir, "pipeline.mro"), []byte(p.Source()), 0644)
}

func (r *Run) mrpArgs() []string {
	jm := r.Cfg.JobMode
	if jm == "" {
		jm = "local"
	}
	args := []string{"mrp", path.Join(r.MroDir, "pipeline.mro"), "ps",
		"--psdir=" + r.PsDir, "--disable-ui", "--jobmode=" + jm}
	args = append(args, r.Cfg.Flags...)
	if os.Getenv("VERIF_MRP_DEBUG") != "" {
		args = append(args, "--debug")
	}
	if len(r.Cfg.Overrides) > 0 {
		args = append(args, "--overrides="+path.Join(r.MroDir, "overrides.json"))
	}
	return args
}

func (r *Run) startMrp() {
	r.Inc++
	util.VerifReset()
	util.SetPrintLogger(devnull{r})
	if r.Inc > 1 {
		vproc.SkipPids(97)
		if r.Cfg.RestartProg != nil {
			if p := r.Cfg.RestartProg(r.Inc); p != nil {
				r.writeProgram(p)
			}
		}
	}
	os.Setenv("MROPATH", r.MroDir)
	p := vproc.NewProc("mrp", fmt.Sprintf("mrp#%d", r.Inc), r.mrpArgs(), nil, r.Root, nil)
	r.Mrp = p
	r.Mrps = append(r.Mrps, p)
	r.op("mrp-start", fmt.Sprintf("incarnation %d pid %d", r.Inc, p.Pid))
	vproc.StartProc(p, func() int {
		MrpMain()
		return 0
	})
}

// onProcExit is vproc's OnExit hook: parent-death signals.
func (r *Run) onProcExit(p *vrt.Proc) {
	if p.Kind != "mrp" {
		return
	}
	for _, c := range vproc.Children(p) {
		if c.Exited || c.Dead {
			continue
		}
		if pi := vproc.Info(c); pi != nil && pi.Pdeathsig != 0 {
			vproc.Deliver(c, pi.Pdeathsig)
		}
	}
}

func (r *Run) crash(spec CrashSpec) {
	r.Faults["crash:"+spec.Kind]++
	p := r.Mrp
	switch spec.Kind {
	case "kill", "torn":
		r.op("crash", fmt.Sprintf("SIGKILL mrp#%d at gate %d", r.Inc, p.Gates))
		vproc.Finish(p, -1, syscall.SIGKILL)
	case "powerloss":
		r.op("crash", fmt.Sprintf("power loss at gate %d of mrp#%d", p.Gates, r.Inc))
		// every process vanishes
		_, procs := vproc.Snapshot()
		for _, q := range procs {
			if !q.Exited {
				if j, ok := vproc.Info(q).User.(*JobRec); ok && j.Outcome == "" {
					j.Outcome = "killed"
					j.EndSeq = vos.NextSeq()
				}
				hook := vproc.T.OnExit
				vproc.T.OnExit = nil
				vproc.Finish(q, -1, syscall.SIGKILL)
				vproc.T.OnExit = hook
			}
		}
	case "sigterm":
		r.op("signal", fmt.Sprintf("SIGTERM mrp#%d at gate %d", r.Inc, p.Gates))
		vproc.Deliver(p, syscall.SIGTERM)
	case "sigterm-twice":
		// an impatient operator (or a batch system escalating): a second SIGTERM while
		// mrp is still shutting down after the first
		r.op("signal", fmt.Sprintf("SIGTERM mrp#%d at gate %d, again a little later", r.Inc, p.Gates))
		vproc.Deliver(p, syscall.SIGTERM)
		at := r.Steps + 1 + int(hash64(r.FCfg.Salt, fmt.Sprint(p.Gates), "second-signal")%40)
		done := false
		r.StepHooks = append(r.StepHooks, func() {
			if !done && r.Steps >= at {
				done = true
				if !p.Exited && !p.Dead {
					r.Faults["second-signal-during-shutdown"]++
					vproc.Deliver(p, syscall.SIGTERM)
				}
			}
		})
	case "sigint":
		// ctrl-C: the whole foreground process group gets it
		r.op("signal", fmt.Sprintf("SIGINT process group of mrp#%d at gate %d", r.Inc, p.Gates))
		vproc.Deliver(p, syscall.SIGINT)
		for _, c := range vproc.Children(p) {
			vproc.Deliver(c, syscall.SIGINT)
		}
	}
}

func (r *Run) classWeight(t *vrt.Task) int {
	w := r.Cfg.WAux
	if t.Proc != nil && t.Proc.Kind == "mrp" {
		if strings.Count(t.Label, "/") <= 1 {
			w = r.Cfg.WMrp
		}
	} else if t.Proc != nil {
		w = r.Cfg.WJob
	}
	if w <= 0 {
		w = 1
	}
	w *= 16
	if strings.HasSuffix(t.Label, "/heartbeat") {
		// the monitor's heartbeat thread is never starved for an hour while the
		// stage code of the same process keeps running: whatever makes a job slow
		// here does not apply to it (a silent job is a fault of its own: C11)
		if w < 160 {
			w = 160
		}
		return w
	}
	if r.Cfg.SlowLabel != "" && r.Cfg.SlowDiv > 1 && strings.Contains(t.Label, r.Cfg.SlowLabel) {
		w /= r.Cfg.SlowDiv
		if w < 1 {
			w = 1
		}
	}
	return w
}

// subWin follows one cluster submission from the removal of the job's
// _queued_locally sentinel to the recording of its job id.
type subWin struct {
	execed     bool // the submit command was started
	otherGates int  // gates the submitting task passed between the removal and the submit command
}

func (r *Run) trackSubmission(t *vrt.Task) {
	if t.Proc == nil || t.Proc.Kind != "mrp" {
		return
	}
	if t.Kind == "fs" && strings.HasPrefix(t.Detail, "remove ") && strings.HasSuffix(t.Detail, "/_queued_locally") {
		if r.SubWins == nil {
			r.SubWins = map[string]*subWin{}
			r.subTask = map[string]string{}
		}
		dir := strings.TrimSuffix(strings.TrimPrefix(t.Detail, "remove "), "/_queued_locally")
		r.SubWins[dir] = &subWin{}
		r.subTask[t.Label] = dir
		return
	}
	dir, ok := r.subTask[t.Label]
	if !ok {
		return
	}
	w := r.SubWins[dir]
	switch {
	case t.Kind == "proc" && strings.HasPrefix(t.Detail, "exec "):
		w.execed = true
	case t.Kind == "fs" && strings.HasSuffix(t.Detail, "/_jobid"):
		delete(r.subTask, t.Label)
	case !w.execed:
		w.otherGates++
	}
}

func (r *Run) record(t *vrt.Task, of int) {
	r.trackSubmission(t)
	r.SchedHash = r.SchedHash*1099511628211 ^ hash64(strings.ReplaceAll(t.Label, r.Root, "$ROOT"), t.Kind, strings.ReplaceAll(t.Detail, r.Root, "$ROOT"))
	if r.Cfg.KeepTrace {
		r.Trace = append(r.Trace, SchedEntry{Step: r.Steps, Task: t.Label, Kind: t.Kind,
			Detail: t.Detail, Of: of, Time: time.Since(r.Start).String()})
	}
}

// Execute runs the whole simulation.  Must be called inside a synctest bubble.
func (r *Run) Execute() {
	cfg := r.Cfg
	os.RemoveAll(r.PsDir)
	os.RemoveAll(r.MroDir)
	os.RemoveAll(path.Join(r.Root, "ext"))
	os.RemoveAll(path.Join(r.Root, "ps_archive"))
	os.RemoveAll(path.Join(r.Root, "vol"))
	os.Remove(path.Join(r.Root, "lnk"))
	os.RemoveAll(path.Join(r.Root, "ps"))
	vosRoot := r.Root
	if cfg.LinkedRoot {
		os.MkdirAll(path.Join(r.Root, "vol"), 0755)
		os.Symlink("vol", path.Join(r.Root, "lnk"))
		vosRoot = path.Join(r.Root, "lnk")
	}
	if err := r.writeProgram(r.Prog); err != nil {
		r.violate("SIM", "setup", err.Error())
		return
	}
	vrt.Reset()
	vrt.S.MapMode, vrt.S.MapSalt = cfg.MapMode, cfg.MapSalt
	vos.Reset(vosRoot)
	vos.W.AllowOutside = []string{"/dev/null"}
	if cfg.LinkedRoot {
		vos.W.AllowOutside = append(vos.W.AllowOutside, r.Root+"/")
	}
	vos.ResetWeather()
	vproc.Reset(4100)
	vproc.T.Launch = r.launch
	vproc.T.Path["qsub"] = true
	vproc.T.OnExit = r.onProcExit
	vproc.T.Path["qsub"] = true
	vrt.S.OnPanic = func(t *vrt.Task, rec interface{}, stack []byte) {
		msg := fmt.Sprint(rec)
		st := string(stack)
		if i := strings.Index(st, "panic("); i >= 0 {
			st = st[i:]
		}
		if len(st) > 1500 {
			st = st[:1500]
		}
		r.Panics = append(r.Panics, fmt.Sprintf("%s: panic: %s\n%s", t.Label, msg, st))
		if t.Proc != nil {
			vproc.Finish(t.Proc, 2, 0)
		}
	}
	if r.PreStart != nil {
		r.PreStart()
	}
	r.Start = time.Now()
	defer func() {
		r.SimTime = time.Since(r.Start)
		vrt.Deactivate()
		// hash of the complete observable history of the run
		h := ""
		for _, ev := range vos.W.Events {
			h = fmt.Sprintf("%x", hash64(h, fmt.Sprint(ev.Seq), strings.ReplaceAll(ev.Task, r.Root, "$ROOT"), ev.Op,
				strings.ReplaceAll(ev.Path, r.Root, "$ROOT"), strings.ReplaceAll(ev.Path2, r.Root, "$ROOT"), fmt.Sprint(ev.Size), strings.ReplaceAll(ev.Err, r.Root, "$ROOT"), ev.Fault))
		}
		pe, _ := vproc.Snapshot()
		for _, ev := range pe {
			h = fmt.Sprintf("%x", hash64(h, fmt.Sprint(ev.Seq), ev.Kind, fmt.Sprint(ev.Pid), strings.ReplaceAll(ev.Name, r.Root, "$ROOT"), fmt.Sprint(ev.Code), ev.Detail))
		}
		r.HistHash = h
	}()
	r.startMrp()
	restarts := 0
	drain := 0
	for {
		synctest.Wait()
		for _, h := range r.StepHooks {
			h()
		}
		// progress: a job started or ended, or an mrp incarnation exited
		sig := len(r.Jobs)*3 + len(r.ExitCodes)*7
		for _, j := range r.Jobs {
			if j.EndSeq != 0 {
				sig++
			}
		}
		if sig != r.progressSig {
			r.progressSig, r.LastProgress = sig, r.Steps
		}
		if r.Steps >= cfg.MaxSteps {
			r.StepLimit = true
			return
		}
		if r.Mrp.Dead && !r.Mrp.Exited {
			// died inside the disk seam (torn write): account for it as a kill
			r.op("crash", fmt.Sprintf("mrp#%d died during a torn write at gate %d", r.Inc, r.Mrp.Gates))
			vproc.Finish(r.Mrp, -1, syscall.SIGKILL)
		}
		parked := vrt.Parked()
		if r.Mrp.Exited {
			// let surviving job processes react (signal handlers) before deciding
			var others []*vrt.Task
			for _, t := range parked {
				others = append(others, t)
			}
			if len(others) > 0 && drain < r.drainLimit() && r.drainBeforeRestart() {
				drain++
				r.release(others, false)
				continue
			}
			r.ExitCodes = append(r.ExitCodes, r.Mrp.ExitCode)
			if !r.wantRestart(restarts) {
				return
			}
			restarts++
			drain = 0
			r.operatorRestart()
			continue
		}
		if r.stallIdx < len(cfg.Stalls) && r.stallDue(cfg.Stalls[r.stallIdx]) {
			st := cfg.Stalls[r.stallIdx]
			r.stallIdx++
			r.Steps++
			r.op("stall", fmt.Sprintf("every process frozen for %v at step %d", st.D, r.Steps))
			r.Faults["machine-stall"]++
			r.SchedHash = r.SchedHash*1099511628211 ^ hash64("stall", st.D.String())
			if r.Cfg.KeepTrace {
				r.Trace = append(r.Trace, SchedEntry{Step: r.Steps, Task: "<machine>", Kind: "stall", Detail: st.D.String(), Time: time.Since(r.Start).String()})
			}
			time.Sleep(st.D)
			continue
		}
		if r.crashIdx < len(cfg.Crashes) {
			c := cfg.Crashes[r.crashIdx]
			if c.Inc == r.Inc && r.Mrp.Gates >= c.AtGate && (c.When == nil || c.When(r)) {
				r.crashIdx++
				if c.Kind == "torn" {
					if t := r.findTornCandidate(parked); t != nil {
						r.Steps++
						r.record(t, len(parked))
						r.Faults["crash:torn-write"]++
						vrt.Release(t, vrt.FaultTorn)
						continue
					}
				}
				r.crash(c)
				continue
			} else if c.Inc < r.Inc {
				r.crashIdx++
				continue
			}
		}
		if !r.release(parked, true) {
			return
		}
	}
}

func (r *Run) findTornCandidate(parked []*vrt.Task) *vrt.Task {
	for _, t := range parked {
		if t.Proc == r.Mrp && t.Kind == "fs" && strings.HasPrefix(t.Detail, "write ") {
			return t
		}
	}
	return nil
}

// release picks one parked task (or a time advance) and lets it run.  Returns
// false if the system is stuck.
func (r *Run) release(parked []*vrt.Task, allowTime bool) bool {
	r.Steps++
	dl, haveDl := vrt.NextDeadline()
	if len(parked) == 0 {
		if !haveDl {
			r.Stalled = true
			return false
		}
		r.advance(dl)
		return true
	}
	w := make([]int, 0, len(parked)+1)
	now := time.Now()
	if r.parkedSince == nil {
		r.parkedSince = map[*vrt.Task]time.Time{}
	}
	for _, t := range parked {
		w = append(w, r.classWeight(t))
		if ps, ok := r.parkedSince[t]; !ok {
			r.parkedSince[t] = now
		} else if now.Sub(ps) > 10*time.Minute {
			// a runnable task has been waiting for ten simulated minutes: no
			// machine starves a thread that long while its clock goes on
			allowTime = false
		}
	}
	if allowTime && haveDl && r.Cfg.WTime > 0 {
		w = append(w, r.Cfg.WTime*16)
	}
	i := r.Cfg.Sched.Pick(w)
	if i == len(parked) {
		r.advance(dl)
		return true
	}
	t := parked[i]
	delete(r.parkedSince, t)
	r.record(t, len(parked))
	vrt.Release(t, vrt.FaultNone)
	return true
}

func (r *Run) advance(dl time.Time) {
	d := time.Until(dl)
	if d <= 0 {
		d = time.Millisecond
	}
	r.SchedHash = r.SchedHash*1099511628211 ^ hash64("time", d.String())
	if r.Cfg.KeepTrace {
		r.Trace = append(r.Trace, SchedEntry{Step: r.Steps, Task: "<time>", Kind: "advance",
			Detail: d.String(), Time: time.Since(r.Start).String()})
	}
	r.Probes["time-advance"]++
	time.Sleep(d)
}

func (r *Run) stallDue(st StallSpec) bool {
	if st.AtSlow {
		busy := false
		for _, j := range r.Jobs {
			if j.sleeping && j.proc != nil && !j.proc.Exited && !j.proc.Dead {
				busy = true
			}
		}
		if !busy && r.stallBase == 0 {
			return false
		}
	} else if st.AtJob <= 0 {
		return r.Steps >= st.AtStep
	} else if len(r.Jobs) < st.AtJob {
		return false
	}
	if r.stallBase == 0 {
		r.stallBase = r.Steps
	}
	return r.Steps >= r.stallBase+st.AtStep
}

func (r *Run) drainBeforeRestart() bool { return true }

// drainLimit is the number of steps surviving job processes get to react to the
// death of their mrp before the operator restarts it (the last incarnation always
// drains fully).  A short drain lets orphans of the old incarnation run alongside
// the new one.
func (r *Run) drainLimit() int {
	if r.Cfg.QuickRestart > 0 && r.wantRestart(r.Inc-1) {
		return r.Cfg.QuickRestart - 1
	}
	return 400
}

func (r *Run) wantRestart(restarts int) bool {
	if restarts >= r.Cfg.Restarts {
		return false
	}
	return true
}

// operatorRestart: the operator removes a stale lock left by a kill and starts
// mrp again with the same command line.
func (r *Run) operatorRestart() {
	lock := path.Join(r.PsDir, "_lock")
	if pi := vproc.Info(r.Mrp); pi != nil && pi.Signaled == syscall.SIGKILL {
		if _, err := os.Stat(lock); err == nil {
			os.Remove(lock)
			r.op("operator", "removed stale _lock")
		}
	}
	r.startMrp()
}

// ---------------------------------------------------------------------------
// History export
// ---------------------------------------------------------------------------

type History struct {
	Fs    []vos.Event   `json:"fs"`
	Procs []vproc.Event `json:"procs"`
	Ops   []OpEvent     `json:"ops"`
	Jobs  []*JobRec     `json:"jobs"`
	Sched []SchedEntry  `json:"sched,omitempty"`
}

func (r *Run) History() *History {
	pe, _ := vproc.Snapshot()
	return &History{Fs: append([]vos.Event(nil), vos.W.Events...), Procs: pe, Ops: r.Ops, Jobs: r.Jobs, Sched: r.Trace}
}

// ReadOuts reads and parses the top-level pipeline's _outs.
func (r *Run) ReadTopOuts() (interface{}, error) {
	b, err := r.readMeta(path.Join(r.Prog.Top.Callee, "fork0", "_outs"))
	if err != nil {
		return nil, err
	}
	return ParseJSON(b)
}

// readMeta reads a metadata file of the pipestance (path relative to the pipestance
// directory), from _metadata.zip if mrp --zip has archived it.
func (r *Run) readMeta(rel string) ([]byte, error) {
	b, err := os.ReadFile(path.Join(r.PsDir, rel))
	if err == nil {
		return b, nil
	}
	zr, zerr := zip.OpenReader(path.Join(r.PsDir, "_metadata.zip"))
	if zerr != nil {
		return nil, err
	}
	defer zr.Close()
	for _, f := range zr.File {
		if f.Name == rel {
			rc, e := f.Open()
			if e != nil {
				return nil, e
			}
			defer rc.Close()
			return io.ReadAll(rc)
		}
	}
	return nil, err
}

func jsonString(v interface{}) string {
	b, _ := json.Marshal(v)
	return string(b)
}

func sortedStrings(m map[string]int) []string {
	ks := make([]string, 0, len(m))
	for k := range m {
		ks = append(ks, k)
	}
	sort.Strings(ks)
	return ks
}

// stageNodes lists the partially qualified names (as --overrides wants them) of
// every stage call reachable from the top-level call, and of the pipeline calls
// on the way.
func stageNodes(p *Prog) (stages, pipes []string) {
	var walk func(c *CallDef, prefix string)
	walk = func(c *CallDef, prefix string) {
		name := c.Id
		if prefix != "" {
			name = prefix + "." + c.Id
		}
		if pl := p.Pipeline(c.Callee); pl != nil {
			pipes = append(pipes, name)
			for _, cc := range pl.Calls {
				walk(cc, name)
			}
			return
		}
		stages = append(stages, name)
	}
	walk(p.Top, "")
	return
}

// forceVolatile looks an override up the way martian documents it: the nearest
// enclosing node which sets force_volatile decides.
func (r *Run) forceVolatile(node string) (val, set bool) {
	pqn := strings.ReplaceAll(node, "/", ".")
	for pqn != "" {
		if o, ok := r.Cfg.Overrides[pqn]; ok {
			if v, ok := o["force_volatile"].(bool); ok {
				return v, true
			}
		}
		i := strings.LastIndexByte(pqn, '.')
		if i < 0 {
			break
		}
		pqn = pqn[:i]
	}
	return false, false
}
