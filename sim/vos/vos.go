// Package vos is the simulator's disk seam.  Every mutating filesystem call of the
// instrumented martian code arrives here: it is a gate (a scheduling and crash
// point), a fault-injection point, and is recorded in the event history.  The
// operation itself is then performed on the real (tmpfs) filesystem.
package vos

import (
	"errors"
	"io/fs"
	"os"
	"path/filepath"
	"runtime"
	"strings"
	"sync"
	"syscall"

	"github.com/martian-lang/martian/martian/verifsim/vrt"
	"golang.org/x/sys/unix"
)

// Event is one mutating filesystem operation.
type Event struct {
	Seq   int    `json:"seq"`
	Task  string `json:"task"`
	Pid   int    `json:"pid"`
	Op    string `json:"op"`
	Path  string `json:"path"`
	Path2 string `json:"path2,omitempty"`
	Size  int    `json:"size,omitempty"`
	Fault string `json:"fault,omitempty"`
	Err   string `json:"err,omitempty"`
	PKind string `json:"pkind,omitempty"`
	Site  string `json:"site,omitempty"` // source file of the calling martian code
	// for remove / removeall: what the call found at the path just before it ran
	RmFiles     int   `json:"rm_files,omitempty"` // regular files and symlinks
	RmFileBytes int64 `json:"rm_file_bytes,omitempty"`
	RmDirs      int   `json:"rm_dirs,omitempty"`
	RmDirBytes  int64 `json:"rm_dir_bytes,omitempty"`
	// if the path is a symlink to a directory: what a walk that follows it finds
	RmLinkEntries int   `json:"rm_link_entries,omitempty"`
	RmLinkBytes   int64 `json:"rm_link_bytes,omitempty"`
}

type World struct {
	mu     sync.Mutex
	Root   string // paths are reported relative to this
	Events []Event
	seq    int
	// Hook is called (with no lock held) before an operation is performed, after
	// the gate.  It may veto with an error.
	Before func(ev *Event, data []byte) error
	After  func(ev *Event)
	// BeforeRead, if set, is asked before a file is opened for reading or read as a
	// whole by a simulated process; it may veto with an error.  Reads are no gates
	// and leave no events.
	BeforeRead func(pkind, site, path string) error
	// Counters of faults that actually fired.
	FaultErrs, FaultTorn int
	Outside              []string // mutating calls outside Root (must stay empty)
	AllowOutside         []string
}

var W = &World{}

func Reset(root string) {
	W.mu.Lock()
	W.Root = root
	W.Events = nil
	W.seq = 0
	W.Before = nil
	W.After = nil
	W.BeforeRead = nil
	W.FaultErrs, W.FaultTorn = 0, 0
	W.Outside = nil
	W.mu.Unlock()
}

// Simulated reports whether the calling goroutine runs inside a simulation.
func Simulated() bool { return vrt.S.Active && vrt.Cur() != nil }

// NextSeq hands out global event sequence numbers (shared with the process seam).
func NextSeq() int {
	W.mu.Lock()
	W.seq++
	s := W.seq
	W.mu.Unlock()
	return s
}

// callSite returns the base name of the first source file outside this package
// on the call stack (which part of martian asked for the operation).
func callSite() string {
	var pcs [12]uintptr
	n := runtime.Callers(3, pcs[:])
	frames := runtime.CallersFrames(pcs[:n])
	for {
		f, more := frames.Next()
		if f.File != "" && !strings.Contains(f.File, "/verifsim/") {
			i := strings.LastIndexByte(f.File, '/')
			return f.File[i+1:]
		}
		if !more {
			return ""
		}
	}
}

// Rel returns the path relative to the simulated root.
func Rel(p string) string { return rel(p) }

func rel(p string) string {
	if W.Root != "" && strings.HasPrefix(p, W.Root) {
		r := strings.TrimPrefix(p[len(W.Root):], "/")
		if r == "" {
			return "."
		}
		return r
	}
	return p
}

func injected(op, path string) error {
	return &fs.PathError{Op: op, Path: path, Err: syscall.EIO}
}

// begin is the common prologue: gate, build the event.
func begin(op, path, path2 string, size int) (*Event, int, bool) {
	t := vrt.Cur()
	if t == nil || !vrt.S.Active {
		return nil, 0, false
	}
	fault := t.Park("fs", op+" "+rel(path))
	ev := &Event{Task: t.Label, Op: op, Path: rel(path), Size: size, Site: callSite()}
	if path2 != "" {
		ev.Path2 = rel(path2)
	}
	if t.Proc != nil {
		ev.Pid = t.Proc.Pid
		ev.PKind = t.Proc.Kind
	}
	if W.Root != "" && strings.HasPrefix(path, "/") && !strings.HasPrefix(path, W.Root) {
		ok := false
		for _, a := range W.AllowOutside {
			if strings.HasPrefix(path, a) {
				ok = true
			}
		}
		if !ok {
			W.mu.Lock()
			W.Outside = append(W.Outside, op+" "+path)
			W.mu.Unlock()
		}
	}
	return ev, fault, true
}

func finish(ev *Event, err error) {
	if ev == nil {
		return
	}
	if err != nil {
		ev.Err = err.Error()
	}
	W.mu.Lock()
	W.seq++
	ev.Seq = W.seq
	W.Events = append(W.Events, *ev)
	after := W.After
	W.mu.Unlock()
	if after != nil {
		after(ev)
	}
}

func before(ev *Event, data []byte) error {
	W.mu.Lock()
	b := W.Before
	W.mu.Unlock()
	if b != nil {
		return b(ev, data)
	}
	return nil
}

func WriteFile(name string, data []byte, perm os.FileMode) error {
	ev, fault, sim := begin("write", name, "", len(data))
	if !sim {
		return os.WriteFile(name, data, perm)
	}
	if err := before(ev, data); err != nil {
		finish(ev, err)
		return err
	}
	switch fault {
	case vrt.FaultErr:
		W.mu.Lock()
		W.FaultErrs++
		W.mu.Unlock()
		ev.Fault = "eio"
		err := injected("write", name)
		finish(ev, err)
		return err
	case vrt.FaultTorn:
		// Non-atomic write: the file is created/truncated and a prefix reaches the
		// disk, then the process dies.
		W.mu.Lock()
		W.FaultTorn++
		W.mu.Unlock()
		ev.Fault = "torn"
		n := len(data) / 2
		err := os.WriteFile(name, data[:n], perm)
		ev.Size = n
		finish(ev, err)
		if p := vrt.CurProc(); p != nil {
			vrt.KillProc(p)
		}
		select {}
	}
	err := os.WriteFile(name, data, perm)
	finish(ev, err)
	return err
}

func beforeRead(name string) error {
	t := vrt.Cur()
	if t == nil || !vrt.S.Active {
		return nil
	}
	W.mu.Lock()
	b := W.BeforeRead
	W.mu.Unlock()
	if b == nil {
		return nil
	}
	kind := ""
	if t.Proc != nil {
		kind = t.Proc.Kind
	}
	return b(kind, callStack(), rel(name))
}

// callStack returns the base names of the source files outside this package on the call
// stack, innermost first, joined by "<" (consecutive repetitions once).
func callStack() string {
	var pcs [24]uintptr
	n := runtime.Callers(3, pcs[:])
	frames := runtime.CallersFrames(pcs[:n])
	var out []string
	for {
		f, more := frames.Next()
		if f.File != "" && !strings.Contains(f.File, "/verifsim/") && !strings.Contains(f.File, "/src/runtime/") && !strings.Contains(f.File, "/src/testing/") {
			i := strings.LastIndexByte(f.File, '/')
			b := f.File[i+1:]
			if len(out) == 0 || out[len(out)-1] != b {
				out = append(out, b)
			}
		}
		if !more {
			break
		}
	}
	return strings.Join(out, "<")
}

// Open and ReadFile: the read side of the disk, for injected read errors only.
func Open(name string) (*os.File, error) {
	if err := beforeRead(name); err != nil {
		return nil, err
	}
	return os.Open(name)
}

func ReadFile(name string) ([]byte, error) {
	if err := beforeRead(name); err != nil {
		return nil, err
	}
	return os.ReadFile(name)
}

func simple(op, name, name2 string, do func() error) error {
	ev, fault, sim := begin(op, name, name2, 0)
	if !sim {
		return do()
	}
	if err := before(ev, nil); err != nil {
		finish(ev, err)
		return err
	}
	if fault == vrt.FaultErr {
		W.mu.Lock()
		W.FaultErrs++
		W.mu.Unlock()
		ev.Fault = "eio"
		err := injected(op, name)
		finish(ev, err)
		return err
	}
	err := do()
	finish(ev, err)
	return err
}

func Create(name string) (*os.File, error) {
	var f *os.File
	err := simple("create", name, "", func() (e error) { f, e = os.Create(name); return })
	if err != nil {
		return nil, err
	}
	return f, nil
}

func OpenFile(name string, flag int, perm os.FileMode) (*os.File, error) {
	if flag&(os.O_WRONLY|os.O_RDWR|os.O_CREATE|os.O_TRUNC|os.O_APPEND) == 0 {
		return os.OpenFile(name, flag, perm)
	}
	var f *os.File
	err := simple("open-w", name, "", func() (e error) { f, e = os.OpenFile(name, flag, perm); return })
	if err != nil {
		return nil, err
	}
	return f, nil
}

func CreateTemp(dir, pattern string) (*os.File, error) {
	var f *os.File
	err := simple("create-temp", dir, "", func() (e error) { f, e = os.CreateTemp(dir, pattern); return })
	if err != nil {
		return nil, err
	}
	return f, nil
}

func MkdirTemp(dir, pattern string) (string, error) {
	var s string
	err := simple("mkdir-temp", dir, "", func() (e error) { s, e = os.MkdirTemp(dir, pattern); return })
	return s, err
}

func Remove(name string) error {
	return simpleRm("remove", name, func() error { return os.Remove(name) })
}

func RemoveAll(name string) error {
	return simpleRm("removeall", name, func() error { return os.RemoveAll(name) })
}

// simpleRm is simple() for removals: it measures what is about to be removed.
func simpleRm(op, name string, do func() error) error {
	ev, fault, sim := begin(op, name, "", 0)
	if !sim {
		return do()
	}
	if err := before(ev, nil); err != nil {
		finish(ev, err)
		return err
	}
	if fault == vrt.FaultErr {
		W.mu.Lock()
		W.FaultErrs++
		W.mu.Unlock()
		ev.Fault = "eio"
		err := injected(op, name)
		finish(ev, err)
		return err
	}
	filepath.Walk(name, func(p string, info os.FileInfo, err error) error {
		if err != nil || info == nil {
			return nil
		}
		if info.IsDir() {
			ev.RmDirs++
			ev.RmDirBytes += info.Size()
		} else {
			ev.RmFiles++
			ev.RmFileBytes += info.Size()
		}
		return nil
	})
	if li, lerr := os.Lstat(name); lerr == nil && li.Mode()&os.ModeSymlink != 0 {
		if ti, terr := os.Stat(name); terr == nil && ti.IsDir() {
			if target, rerr := filepath.EvalSymlinks(name); rerr == nil {
				filepath.Walk(target, func(p string, info os.FileInfo, err error) error {
					if err == nil && info != nil {
						ev.RmLinkEntries++
						ev.RmLinkBytes += info.Size()
					}
					return nil
				})
			}
		}
	}
	err := do()
	finish(ev, err)
	return err
}

func Rename(o, n string) error {
	return simple("rename", o, n, func() error { return os.Rename(o, n) })
}

func Symlink(o, n string) error {
	return simple("symlink", n, o, func() error { return os.Symlink(o, n) })
}

func Link(o, n string) error {
	return simple("link", n, o, func() error { return os.Link(o, n) })
}

func Mkdir(name string, perm os.FileMode) error {
	return simple("mkdir", name, "", func() error { return os.Mkdir(name, perm) })
}

func MkdirAll(name string, perm os.FileMode) error {
	return simple("mkdirall", name, "", func() error { return os.MkdirAll(name, perm) })
}

func Chmod(name string, mode os.FileMode) error {
	return simple("chmod", name, "", func() error { return os.Chmod(name, mode) })
}

func Truncate(name string, size int64) error {
	return simple("truncate", name, "", func() error { return os.Truncate(name, size) })
}

// ---- the *at calls used by martian's atomic writer ----

func dirOf(fd int) string {
	if fd == unix.AT_FDCWD {
		d, _ := os.Getwd()
		return d
	}
	p, err := os.Readlink("/proc/self/fd/" + itoa(fd))
	if err != nil {
		return "fd" + itoa(fd)
	}
	return p
}

func itoa(i int) string {
	if i == 0 {
		return "0"
	}
	neg := i < 0
	if neg {
		i = -i
	}
	var b [20]byte
	n := len(b)
	for i > 0 {
		n--
		b[n] = byte('0' + i%10)
		i /= 10
	}
	if neg {
		n--
		b[n] = '-'
	}
	return string(b[n:])
}

func join(dir, name string) string {
	if strings.HasPrefix(name, "/") {
		return name
	}
	if dir == "" {
		return name
	}
	return strings.TrimSuffix(dir, "/") + "/" + name
}

func Openat(dirfd int, path string, flags int, mode uint32) (int, error) {
	if flags&(unix.O_WRONLY|unix.O_RDWR|unix.O_CREAT|unix.O_TRUNC) == 0 {
		return unix.Openat(dirfd, path, flags, mode)
	}
	full := join(dirOf(dirfd), path)
	var fd int
	err := simple("open-w", full, "", func() (e error) { fd, e = unix.Openat(dirfd, path, flags, mode); return })
	if err != nil {
		var pe *fs.PathError
		if errors.As(err, &pe) {
			return -1, pe.Err
		}
		return -1, err
	}
	return fd, nil
}

func Renameat(olddirfd int, oldpath string, newdirfd int, newpath string) error {
	o := join(dirOf(olddirfd), oldpath)
	n := join(dirOf(newdirfd), newpath)
	err := simple("rename", o, n, func() error { return unix.Renameat(olddirfd, oldpath, newdirfd, newpath) })
	var pe *fs.PathError
	if errors.As(err, &pe) {
		return pe.Err
	}
	return err
}

func Unlinkat(dirfd int, path string, flags int) error {
	full := join(dirOf(dirfd), path)
	err := simple("remove", full, "", func() error { return unix.Unlinkat(dirfd, path, flags) })
	var pe *fs.PathError
	if errors.As(err, &pe) {
		return pe.Err
	}
	return err
}
