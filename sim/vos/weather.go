package vos

import "sync"

// Weather is the simulated state of the machine as seen by martian's resource
// probes (free memory, load average, process counts, rlimits).
type WeatherState struct {
	MemTotalBytes int64
	MemFreeBytes  int64
	LoadOne       float64
	UserProcs     int
	RlimNprocCur  uint64
	RlimNprocMax  uint64
	DiskFreeBytes uint64
	DiskInodes    uint64
}

var (
	weatherMu sync.Mutex
	weather   = DefaultWeather()
	// WeatherHook, if set, is called on every probe and may change the state.
	WeatherHook func(probe string, w *WeatherState)
	WeatherReads int
)

func DefaultWeather() WeatherState {
	return WeatherState{
		MemTotalBytes: 256 << 30,
		MemFreeBytes:  200 << 30,
		LoadOne:       0.5,
		UserProcs:     100,
		RlimNprocCur:  1 << 20,
		RlimNprocMax:  1 << 20,
		DiskFreeBytes: 1 << 40,
		DiskInodes:    1 << 30,
	}
}

func ResetWeather() {
	weatherMu.Lock()
	weather = DefaultWeather()
	WeatherHook = nil
	WeatherReads = 0
	weatherMu.Unlock()
}

func SetWeather(w WeatherState) {
	weatherMu.Lock()
	weather = w
	weatherMu.Unlock()
}

// Probe returns the current weather for the named probe.
func Probe(name string) WeatherState {
	weatherMu.Lock()
	defer weatherMu.Unlock()
	WeatherReads++
	if WeatherHook != nil {
		WeatherHook(name, &weather)
	}
	return weather
}
