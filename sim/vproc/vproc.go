// Package vproc is the simulator's process seam: exec.Command, os.Exit, os.Getpid,
// os.FindProcess, os.Args and signal.Notify of the instrumented martian code arrive
// here.  Processes are simulated: each is a vrt.Proc with tasks; pids are
// deterministic; exit and signals are events in the history.
package vproc

import (
	"bytes"
	"context"
	"errors"
	"fmt"
	"io"
	"os"
	"os/exec"
	"os/signal"
	"sync"
	"syscall"

	"github.com/martian-lang/martian/martian/verifsim/vos"
	"github.com/martian-lang/martian/martian/verifsim/vrt"
)

// Event is a process-table event.
type Event struct {
	Seq    int      `json:"seq"`
	Kind   string   `json:"kind"` // start, exit, kill, signal
	Pid    int      `json:"pid"`
	PPid   int      `json:"ppid,omitempty"`
	PKind  string   `json:"pkind"`
	Name   string   `json:"name"`
	Args   []string `json:"args,omitempty"`
	Code   int      `json:"code,omitempty"`
	Detail string   `json:"detail,omitempty"`
}

// ProcInfo is the vproc view of a process, stored in vrt.Proc.Data.
type ProcInfo struct {
	P         *vrt.Proc
	Cmd       *Cmd
	Done      chan struct{}
	Pdeathsig syscall.Signal
	Signaled  syscall.Signal // death by signal
	OnSignal  func(sig syscall.Signal)
	SigChan   chan<- os.Signal
	User      interface{}
}

type Table struct {
	mu      sync.Mutex
	nextPid int
	Procs   []*vrt.Proc
	Events  []Event
	// Launch returns the main function of a simulated executable, or nil if the
	// executable does not exist.
	Launch func(p *vrt.Proc, c *Cmd) func() int
	// Known executables for LookPath.
	Path map[string]bool
	// OnExit is called when a process exits or is killed.
	OnExit func(p *vrt.Proc)
}

var T = &Table{}

func Reset(firstPid int) {
	T.mu.Lock()
	T.nextPid = firstPid
	T.Procs = nil
	T.Events = nil
	T.Launch = nil
	T.Path = map[string]bool{}
	T.OnExit = nil
	T.mu.Unlock()
}

func Info(p *vrt.Proc) *ProcInfo {
	if p == nil {
		return nil
	}
	pi, _ := p.Data.(*ProcInfo)
	return pi
}

func record(ev Event) {
	ev.Seq = vos.NextSeq()
	T.mu.Lock()
	T.Events = append(T.Events, ev)
	T.mu.Unlock()
}

// NewProc creates a process entry.
func NewProc(kind, name string, args, env []string, dir string, parent *vrt.Proc) *vrt.Proc {
	T.mu.Lock()
	T.nextPid++
	pid := T.nextPid
	p := &vrt.Proc{Pid: pid, Kind: kind, Name: name, Args: args, Env: env, Dir: dir, Parent: parent}
	p.Data = &ProcInfo{P: p, Done: make(chan struct{})}
	T.Procs = append(T.Procs, p)
	T.mu.Unlock()
	return p
}

// SkipPids advances the pid counter (new incarnations get well-separated pids).
func SkipPids(n int) {
	T.mu.Lock()
	T.nextPid += n
	T.mu.Unlock()
}

// StartProc starts main as the main task of p.
func StartProc(p *vrt.Proc, main func() int) {
	ppid := 0
	if p.Parent != nil {
		ppid = p.Parent.Pid
	}
	record(Event{Kind: "start", Pid: p.Pid, PPid: ppid, PKind: p.Kind, Name: p.Name, Args: p.Args})
	vrt.Go(p.Name, p, func() {
		code := main()
		Finish(p, code, 0)
		select {}
	})
}

// Finish marks p as exited (code) or killed by a signal, wakes waiters and
// notifies the owner.  Idempotent.
func Finish(p *vrt.Proc, code int, sig syscall.Signal) {
	pi := Info(p)
	T.mu.Lock()
	if p.Exited {
		T.mu.Unlock()
		return
	}
	p.Exited = true
	p.ExitCode = code
	if pi != nil {
		pi.Signaled = sig
	}
	T.mu.Unlock()
	vrt.KillProc(p)
	if sig != 0 {
		record(Event{Kind: "kill", Pid: p.Pid, PKind: p.Kind, Name: p.Name, Detail: sig.String()})
	} else {
		record(Event{Kind: "exit", Pid: p.Pid, PKind: p.Kind, Name: p.Name, Code: code})
	}
	if pi != nil {
		close(pi.Done)
	}
	T.mu.Lock()
	cb := T.OnExit
	T.mu.Unlock()
	if cb != nil {
		cb(p)
	}
}

func Alive(pid int) bool {
	T.mu.Lock()
	defer T.mu.Unlock()
	for _, p := range T.Procs {
		if p.Pid == pid {
			return !p.Exited && !p.Dead
		}
	}
	return false
}

func Find(pid int) *vrt.Proc {
	T.mu.Lock()
	defer T.mu.Unlock()
	for _, p := range T.Procs {
		if p.Pid == pid {
			return p
		}
	}
	return nil
}

func Children(parent *vrt.Proc) []*vrt.Proc {
	T.mu.Lock()
	defer T.mu.Unlock()
	var out []*vrt.Proc
	for _, p := range T.Procs {
		if p.Parent == parent {
			out = append(out, p)
		}
	}
	return out
}

func Snapshot() ([]Event, []*vrt.Proc) {
	T.mu.Lock()
	defer T.mu.Unlock()
	return append([]Event(nil), T.Events...), append([]*vrt.Proc(nil), T.Procs...)
}

// ---- os replacements ----

// Exit ends the calling process.  Like os.Exit no deferred function runs: the
// calling goroutine parks forever.
func Exit(code int) {
	p := vrt.CurProc()
	if p == nil || !vrt.S.Active {
		os.Exit(code)
	}
	Finish(p, code, 0)
	select {}
}

func Getpid() int {
	if p := vrt.CurProc(); p != nil {
		return p.Pid
	}
	return os.Getpid()
}

func Args() []string {
	if p := vrt.CurProc(); p != nil {
		return p.Args
	}
	return os.Args
}

type Process struct {
	Pid int
}

func FindProcess(pid int) (*Process, error) { return &Process{Pid: pid}, nil }

var ErrProcessDone = errors.New("os: process already finished")

func (p *Process) Signal(sig os.Signal) error {
	if !simulated() {
		rp, err := os.FindProcess(p.Pid)
		if err != nil {
			return err
		}
		return rp.Signal(sig)
	}
	s, _ := sig.(syscall.Signal)
	if !Alive(p.Pid) {
		return ErrProcessDone
	}
	if s == 0 {
		return nil
	}
	vrt.Gate("proc", fmt.Sprintf("signal %d %v", p.Pid, s))
	Deliver(Find(p.Pid), s)
	return nil
}

func (p *Process) Kill() error { return p.Signal(syscall.SIGKILL) }

// Deliver sends a signal to a simulated process.
func Deliver(p *vrt.Proc, sig syscall.Signal) {
	if p == nil || p.Exited || p.Dead {
		return
	}
	record(Event{Kind: "signal", Pid: p.Pid, PKind: p.Kind, Name: p.Name, Detail: sig.String()})
	pi := Info(p)
	if sig == syscall.SIGKILL {
		Finish(p, -1, sig)
		return
	}
	if pi != nil && pi.OnSignal != nil {
		pi.OnSignal(sig)
		return
	}
	if pi != nil && pi.SigChan != nil {
		select {
		case pi.SigChan <- os.Signal(sig):
		default:
		}
		return
	}
	// default disposition: terminate
	Finish(p, -1, sig)
}

func SignalNotify(c chan<- os.Signal, sigs ...os.Signal) {
	if !simulated() {
		signal.Notify(c, sigs...)
		return
	}
	if pi := Info(vrt.CurProc()); pi != nil {
		pi.SigChan = c
	}
}

func SignalIgnored(s os.Signal) bool {
	if !simulated() {
		return signal.Ignored(s)
	}
	return false
}
// SignalStop undoes SignalNotify: the default disposition (termination) is back.
func SignalStop(c chan<- os.Signal) {
	if !simulated() {
		signal.Stop(c)
		return
	}
	if pi := Info(vrt.CurProc()); pi != nil && pi.SigChan == c {
		pi.SigChan = nil
	}
}

// ---- exec replacements ----

type ExitError struct {
	*os.ProcessState
	Stderr []byte
	Msg    string
}

func (e *ExitError) Error() string { return e.Msg }

type Error = exec.Error

var ErrNotFound = exec.ErrNotFound
var ErrDot = exec.ErrDot

func LookPath(file string) (string, error) {
	T.mu.Lock()
	known := T.Path[file]
	T.mu.Unlock()
	if known {
		return file, nil
	}
	if vrt.S.Active && vrt.Cur() != nil {
		return "", &exec.Error{Name: file, Err: exec.ErrNotFound}
	}
	return exec.LookPath(file)
}

type Cmd struct {
	Path         string
	Args         []string
	Env          []string
	Dir          string
	Stdin        io.Reader
	Stdout       io.Writer
	Stderr       io.Writer
	ExtraFiles   []*os.File
	SysProcAttr  *syscall.SysProcAttr
	Process      *Process
	ProcessState *os.ProcessState
	proc         *vrt.Proc
	ctx          context.Context
	real         *exec.Cmd // pass-through when not running under the simulator
}

// passThrough builds the real command for use outside a simulation (the
// instrumented build then behaves like the original code).
func (c *Cmd) passThrough() *exec.Cmd {
	if c.real == nil {
		var rc *exec.Cmd
		if c.ctx != nil {
			rc = exec.CommandContext(c.ctx, c.Path, c.Args[1:]...)
		} else {
			rc = exec.Command(c.Path, c.Args[1:]...)
		}
		rc.Env, rc.Dir, rc.Stdin, rc.Stdout, rc.Stderr = c.Env, c.Dir, c.Stdin, c.Stdout, c.Stderr
		rc.ExtraFiles, rc.SysProcAttr = c.ExtraFiles, c.SysProcAttr
		c.real = rc
	}
	return c.real
}

func simulated() bool { return vrt.S.Active && vrt.CurProc() != nil }

func Command(name string, arg ...string) *Cmd {
	return &Cmd{Path: name, Args: append([]string{name}, arg...)}
}

func CommandContext(ctx context.Context, name string, arg ...string) *Cmd {
	c := Command(name, arg...)
	c.ctx = ctx
	return c
}

func (c *Cmd) Start() error {
	parent := vrt.CurProc()
	if parent == nil || !vrt.S.Active {
		rc := c.passThrough()
		err := rc.Start()
		if rc.Process != nil {
			c.Process = &Process{Pid: rc.Process.Pid}
		}
		return err
	}
	if f := vrt.Gate("proc", "exec "+c.Path); f == vrt.FaultErr {
		return &os.PathError{Op: "fork/exec", Path: c.Path, Err: syscall.EAGAIN}
	}
	T.mu.Lock()
	launch := T.Launch
	T.mu.Unlock()
	name := c.Path
	p := NewProc("job", name, c.Args, c.Env, c.Dir, parent)
	var main func() int
	if launch != nil {
		main = launch(p, c)
	}
	if main == nil {
		T.mu.Lock()
		p.Exited, p.Dead = true, true
		T.mu.Unlock()
		return &os.PathError{Op: "fork/exec", Path: c.Path, Err: syscall.ENOENT}
	}
	pi := Info(p)
	pi.Cmd = c
	if c.SysProcAttr != nil {
		pi.Pdeathsig = c.SysProcAttr.Pdeathsig
	}
	c.proc = p
	c.Process = &Process{Pid: p.Pid}
	StartProc(p, main)
	return nil
}

func (c *Cmd) Wait() error {
	if c.real != nil {
		err := c.real.Wait()
		c.ProcessState = c.real.ProcessState
		return err
	}
	if c.proc == nil {
		return errors.New("exec: not started")
	}
	pi := Info(c.proc)
	<-pi.Done
	vrt.Yield("cmd.Wait")
	if pi.Signaled != 0 {
		return &ExitError{Msg: "signal: " + pi.Signaled.String()}
	}
	if c.proc.ExitCode != 0 {
		return &ExitError{Msg: fmt.Sprintf("exit status %d", c.proc.ExitCode)}
	}
	return nil
}

func (c *Cmd) Run() error {
	if err := c.Start(); err != nil {
		return err
	}
	return c.Wait()
}

func (c *Cmd) Output() ([]byte, error) {
	var b bytes.Buffer
	c.Stdout = &b
	err := c.Run()
	return b.Bytes(), err
}

func (c *Cmd) CombinedOutput() ([]byte, error) {
	var b bytes.Buffer
	c.Stdout = &b
	c.Stderr = &b
	err := c.Run()
	return b.Bytes(), err
}

func (c *Cmd) String() string { return fmt.Sprint(c.Args) }

// Proc returns the simulated process started by c.
func (c *Cmd) Proc() *vrt.Proc { return c.proc }
