package vrt

import (
	"cmp"
	"fmt"
	"hash/fnv"
	"reflect"
	"slices"
	"sort"
)

// Labeler can be implemented by pointer-like map keys to give them a stable,
// run-independent identity.
type Labeler interface{ VerifLabel() string }

type fqNamer interface{ GetFQName() string }

// KeyLabel gives a stable label for a map key which has no natural order.
func KeyLabel(k any) string {
	if k == nil {
		return ""
	}
	rv := reflect.ValueOf(k)
	switch rv.Kind() {
	case reflect.Ptr, reflect.Interface, reflect.Map, reflect.Slice, reflect.Func, reflect.Chan:
		if rv.IsNil() {
			return ""
		}
	}
	switch v := k.(type) {
	case Labeler:
		return fmt.Sprintf("%T|%s", k, v.VerifLabel())
	case fqNamer:
		return fmt.Sprintf("%T|%s", k, v.GetFQName())
	case fmt.Stringer:
		return fmt.Sprintf("%T|%s", k, v.String())
	}
	switch rv.Kind() {
	case reflect.Ptr, reflect.Map, reflect.Slice, reflect.Func, reflect.Chan, reflect.UnsafePointer:
		S.mu.Lock()
		S.UnlabeledKey++
		S.mu.Unlock()
		return fmt.Sprintf("%T", k)
	}
	return fmt.Sprintf("%T|%v", k, k)
}

func mix(salt uint64, s string) uint64 {
	h := fnv.New64a()
	var b [8]byte
	for i := 0; i < 8; i++ {
		b[i] = byte(salt >> (8 * i))
	}
	h.Write(b[:])
	h.Write([]byte(s))
	return h.Sum64()
}

func mode(site string) (int, uint64) {
	S.mu.Lock()
	m, salt := S.MapMode, S.MapSalt
	if S.MapIterSites != nil {
		S.MapIterSites[site]++
	}
	S.mu.Unlock()
	return m, salt
}

// KeysOrdered returns the keys of m in the order chosen for this run.
func KeysOrdered[K cmp.Ordered, V any](site string, m map[K]V) []K {
	ks := make([]K, 0, len(m))
	for k := range m {
		ks = append(ks, k)
	}
	slices.Sort(ks)
	md, salt := mode(site)
	switch md {
	case 1:
		slices.Reverse(ks)
	case 2:
		type kh struct {
			k K
			h uint64
		}
		hs := make([]kh, len(ks))
		for i, k := range ks {
			hs[i] = kh{k, mix(salt, site+"|"+fmt.Sprint(k))}
		}
		sort.SliceStable(hs, func(i, j int) bool { return hs[i].h < hs[j].h })
		for i := range hs {
			ks[i] = hs[i].k
		}
	}
	return ks
}

// KeysLabeled returns the keys of a map whose key type has no natural order,
// ordered by stable labels.
func KeysLabeled[K comparable, V any](site string, m map[K]V) []K {
	type kl struct {
		k K
		l string
		h uint64
	}
	ks := make([]kl, 0, len(m))
	for k := range m {
		ks = append(ks, kl{k: k, l: KeyLabel(k)})
	}
	md, salt := mode(site)
	sort.SliceStable(ks, func(i, j int) bool { return ks[i].l < ks[j].l })
	switch md {
	case 1:
		slices.Reverse(ks)
	case 2:
		for i := range ks {
			ks[i].h = mix(salt, site+"|"+ks[i].l)
		}
		sort.SliceStable(ks, func(i, j int) bool { return ks[i].h < ks[j].h })
	}
	out := make([]K, len(ks))
	for i := range ks {
		out[i] = ks[i].k
	}
	return out
}
