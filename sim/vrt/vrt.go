// Package vrt is the simulator's runtime seam: tasks, gates, sim-aware locks,
// timers and ordered map iteration.  It is linked into the instrumented build of
// martian only (via go build -overlay); it does not exist in the repository.
//
// Model: every goroutine of instrumented code is a Task.  A task runs until it
// reaches a gate (filesystem effect, process operation, wake-up from a blocking
// operation, explicit yield), where it parks on a channel.  The controller (the
// only goroutine that calls synctest.Wait) waits for quiescence, then releases
// exactly one parked task.  Hence at most one task makes progress at a time and
// the sequence of released task labels is the schedule.
package vrt

import (
	"bytes"
	"fmt"
	"os"
	"runtime"
	"runtime/debug"
	"sort"
	"strconv"
	"sync"
	"time"
)

// Proc is a simulated OS process: an mrp incarnation or a job process.
type Proc struct {
	Pid      int
	Kind     string // "mrp", "job", "cmd"
	Name     string // stable label
	Args     []string
	Env      []string
	Dir      string
	Parent   *Proc
	Dead     bool // killed or exited: its tasks never run again
	Exited   bool
	ExitCode int
	Data    interface{} // owner-defined
	Gates   int         // number of gates passed by tasks of this process
	nspawn  int
}

// Task is a goroutine of instrumented code.
type Task struct {
	ID     int
	Label  string
	Proc   *Proc
	gate   chan int
	Parked bool
	Kind   string // kind of the gate it is parked at
	Detail string
	ended  bool
	nchild int
	// Set by the controller when releasing: a fault for the operation at this gate.
	Fault int
}

// Release modes / faults delivered at a gate.
const (
	FaultNone = iota
	FaultErr  // operation returns an I/O error
	FaultTorn // non-atomic write is cut short and the process dies
)

type Sim struct {
	mu        sync.Mutex
	byGoid    map[int64]*Task
	tasks     []*Task
	nextTask  int
	Active    bool
	deadlines []time.Time
	MapMode   int    // 0 ascending, 1 descending, 2 seeded shuffle
	MapSalt   uint64 // for mode 2
	// Counters
	GatesTotal   int
	YieldsTotal  int
	MapIterSites map[string]int
	UnlabeledKey int
	Trace        func(kind string, t *Task, detail string)
	OnPanic      func(t *Task, r interface{}, stack []byte)
}

var S = &Sim{MapMode: envMapMode()}

func envMapMode() int {
	switch os.Getenv("VERIF_MAPMODE") {
	case "1":
		return 1
	case "2":
		return 2
	}
	return 0
}

// Reset prepares a fresh simulation (one run).
func Reset() {
	S.mu.Lock()
	S.byGoid = map[int64]*Task{}
	S.tasks = nil
	S.nextTask = 0
	S.Active = true
	S.deadlines = nil
	S.GatesTotal = 0
	S.YieldsTotal = 0
	S.MapIterSites = map[string]int{}
	S.UnlabeledKey = 0
	S.Trace = nil
	S.OnPanic = nil
	S.mu.Unlock()
	LockYield = false
}

// Deactivate turns all seams into pass-throughs (used after a run is over so that
// leaked goroutines of the finished run cannot disturb the next one).
func Deactivate() {
	S.mu.Lock()
	S.Active = false
	S.mu.Unlock()
}

func goid() int64 {
	var buf [64]byte
	n := runtime.Stack(buf[:], false)
	// "goroutine 123 [running]:..."
	b := buf[:n]
	b = b[len("goroutine "):]
	i := bytes.IndexByte(b, ' ')
	id, _ := strconv.ParseInt(string(b[:i]), 10, 64)
	return id
}

// Cur returns the task of the calling goroutine, or nil.
func Cur() *Task {
	g := goid()
	S.mu.Lock()
	t := S.byGoid[g]
	S.mu.Unlock()
	return t
}

// CurProc returns the process of the calling goroutine, or nil.
func CurProc() *Proc {
	if t := Cur(); t != nil {
		return t.Proc
	}
	return nil
}

// NewTask creates a task descriptor (not yet bound to a goroutine).
func NewTask(label string, p *Proc) *Task {
	S.mu.Lock()
	S.nextTask++
	t := &Task{ID: S.nextTask, Label: label, Proc: p, gate: make(chan int)}
	S.tasks = append(S.tasks, t)
	S.mu.Unlock()
	return t
}

// Spawn is called by the parent, at the go statement, to name the child task.
func Spawn(site string) *Task {
	parent := Cur()
	if parent == nil {
		return nil
	}
	parent.nchild++
	label := fmt.Sprintf("%s/%s#%d", parent.Label, site, parent.nchild)
	return NewTask(label, parent.Proc)
}

// Bind associates the calling goroutine with t.
func Bind(t *Task) {
	g := goid()
	S.mu.Lock()
	S.byGoid[g] = t
	S.mu.Unlock()
}

// TaskStart is the first statement of a gated goroutine: it binds the goroutine to
// its task and parks at the start gate.
func TaskStart(t *Task) {
	if t == nil {
		return
	}
	Bind(t)
	t.Park("start", "")
}

// TaskEnd marks the task finished.  It is always called as a deferred function
// of the task's goroutine, so it also contains panics of the code under test: a
// panic is reported to the simulator (the simulated process crashes) instead of
// taking the whole simulator down.
func TaskEnd(t *Task) {
	if t == nil {
		return
	}
	if r := recover(); r != nil {
		S.mu.Lock()
		h := S.OnPanic
		active := S.Active
		S.mu.Unlock()
		if h == nil || !active {
			panic(r)
		}
		h(t, r, debug.Stack())
	}
	g := goid()
	S.mu.Lock()
	t.ended = true
	delete(S.byGoid, g)
	S.mu.Unlock()
}

// Park blocks the calling goroutine (which must be bound to t) until the controller
// releases it.  Returns the fault mode chosen by the controller.
func (t *Task) Park(kind, detail string) int {
	S.mu.Lock()
	if !S.Active {
		S.mu.Unlock()
		return FaultNone
	}
	if t.Proc != nil && t.Proc.Dead {
		S.mu.Unlock()
		select {} // zombie: never runs again
	}
	t.Kind, t.Detail = kind, detail
	t.Parked = true
	S.GatesTotal++
	S.mu.Unlock()
	f := <-t.gate
	S.mu.Lock()
	dead := t.Proc != nil && t.Proc.Dead
	if t.Proc != nil {
		t.Proc.Gates++
	}
	S.mu.Unlock()
	if dead {
		select {}
	}
	return f
}

// Gate parks the calling task at a named gate.  Goroutines that are not tasks
// (the controller, test code) pass through.
func Gate(kind, detail string) int {
	t := Cur()
	if t == nil {
		return FaultNone
	}
	return t.Park(kind, detail)
}

// Yield is a pure scheduling point.
func Yield(site string) {
	t := Cur()
	if t == nil {
		return
	}
	S.mu.Lock()
	S.YieldsTotal++
	S.mu.Unlock()
	t.Park("yield", site)
}

// Parked returns the parked tasks of live processes, sorted by label.
func Parked() []*Task {
	S.mu.Lock()
	var out []*Task
	live := S.tasks[:0]
	for _, t := range S.tasks {
		if t.ended {
			continue
		}
		live = append(live, t)
		if t.Parked && !(t.Proc != nil && t.Proc.Dead) {
			out = append(out, t)
		}
	}
	S.tasks = live
	S.mu.Unlock()
	sort.Slice(out, func(i, j int) bool {
		if out[i].Label != out[j].Label {
			return out[i].Label < out[j].Label
		}
		return out[i].ID < out[j].ID
	})
	return out
}

// Release lets a parked task run.  Must be followed by synctest.Wait in the
// controller.
func Release(t *Task, fault int) {
	S.mu.Lock()
	t.Parked = false
	S.mu.Unlock()
	t.gate <- fault
}

// KillProc marks a process dead: none of its tasks will run again.
func KillProc(p *Proc) {
	S.mu.Lock()
	p.Dead = true
	S.mu.Unlock()
}

// Go starts fn as a new task of process p (used by the simulator itself to start
// process main functions).  The task parks at its start gate first.
func Go(label string, p *Proc, fn func()) *Task {
	t := NewTask(label, p)
	go func() {
		TaskStart(t)
		defer TaskEnd(t)
		fn()
	}()
	return t
}

// ---- blocking-operation wrappers: a woken task parks at a gate at once ----

func Recv[T any](site string, ch <-chan T) T {
	v := <-ch
	Yield(site)
	return v
}

func Recv2[T any](site string, ch <-chan T) (T, bool) {
	v, ok := <-ch
	Yield(site)
	return v, ok
}

func AfterWait(site string, wait func()) {
	wait()
	Yield(site)
}

func GC() {}

// ---- time: real (synctest fake-clock) timers, deadlines noted for the controller ----

func noteDeadline(d time.Duration) {
	if d < 0 {
		d = 0
	}
	S.mu.Lock()
	S.deadlines = append(S.deadlines, time.Now().Add(d))
	S.mu.Unlock()
}

// NextDeadline returns the earliest noted deadline that is after now.
func NextDeadline() (time.Time, bool) {
	now := time.Now()
	S.mu.Lock()
	defer S.mu.Unlock()
	var best time.Time
	keep := S.deadlines[:0]
	for _, d := range S.deadlines {
		if !d.After(now) {
			continue
		}
		keep = append(keep, d)
		if best.IsZero() || d.Before(best) {
			best = d
		}
	}
	S.deadlines = keep
	return best, !best.IsZero()
}

func Sleep(d time.Duration) {
	noteDeadline(d)
	time.Sleep(d)
	Yield("sleep")
}

func NewTimer(d time.Duration) *time.Timer {
	noteDeadline(d)
	return time.NewTimer(d)
}

func ResetTimer(t *time.Timer, d time.Duration) bool {
	noteDeadline(d)
	return t.Reset(d)
}

func After(d time.Duration) <-chan time.Time {
	noteDeadline(d)
	return time.After(d)
}

func NewTicker(d time.Duration) *time.Ticker {
	return time.NewTicker(d)
}

func AfterFunc(site string, d time.Duration, f func()) *time.Timer {
	t := Spawn(site)
	noteDeadline(d)
	return time.AfterFunc(d, func() {
		TaskStart(t)
		defer TaskEnd(t)
		f()
	})
}

// ---- sim-aware locks: blocking is on channels (durable for synctest), hand-off
// is FIFO, and a task that had to wait parks at a gate when it gets the lock ----

type Mutex struct {
	mu      sync.Mutex
	locked  bool
	waiters []chan struct{}
}

// LockYield makes every Mutex.Lock a scheduling point (harness tiers: the
// interleavings between two critical sections of one caller become explorable;
// too costly for whole-system runs, where only contended locks yield).
var LockYield bool

func (m *Mutex) Lock() {
	if LockYield {
		Yield("lock-enter")
	}
	m.mu.Lock()
	if !m.locked {
		m.locked = true
		m.mu.Unlock()
		return
	}
	ch := make(chan struct{})
	m.waiters = append(m.waiters, ch)
	m.mu.Unlock()
	<-ch
	Yield("lock")
}

func (m *Mutex) TryLock() bool {
	m.mu.Lock()
	defer m.mu.Unlock()
	if m.locked {
		return false
	}
	m.locked = true
	return true
}

func (m *Mutex) Unlock() {
	m.mu.Lock()
	if !m.locked {
		m.mu.Unlock()
		panic("vrt: unlock of unlocked mutex")
	}
	if len(m.waiters) > 0 {
		ch := m.waiters[0]
		m.waiters = m.waiters[1:]
		m.mu.Unlock()
		close(ch) // ownership handed over; stays locked
		return
	}
	m.locked = false
	m.mu.Unlock()
}

// Cond replaces sync.Cond: a woken waiter first parks (holding nothing), so that after a
// Broadcast the controller decides in which order the waiters go for the lock; with
// sync.Cond they would race for it in real time and the run could not be replayed.
type Cond struct {
	L       sync.Locker
	mu      sync.Mutex
	waiters []chan struct{}
}

func NewCond(l sync.Locker) *Cond { return &Cond{L: l} }

func (c *Cond) Wait() {
	ch := make(chan struct{})
	c.mu.Lock()
	c.waiters = append(c.waiters, ch)
	c.mu.Unlock()
	c.L.Unlock()
	<-ch
	Yield("cond-wake")
	c.L.Lock()
}

func (c *Cond) Signal() {
	c.mu.Lock()
	if len(c.waiters) > 0 {
		ch := c.waiters[0]
		c.waiters = c.waiters[1:]
		close(ch)
	}
	c.mu.Unlock()
}

func (c *Cond) Broadcast() {
	c.mu.Lock()
	for _, ch := range c.waiters {
		close(ch)
	}
	c.waiters = nil
	c.mu.Unlock()
}

// RWMutex with writer preference like sync.RWMutex: once a writer waits, new
// readers queue behind it.
type RWMutex struct {
	mu      sync.Mutex
	readers int
	writer  bool
	queue   []rwWaiter
}

type rwWaiter struct {
	ch    chan struct{}
	write bool
}

func (m *RWMutex) RLock() {
	m.mu.Lock()
	if !m.writer && len(m.queue) == 0 {
		m.readers++
		m.mu.Unlock()
		return
	}
	ch := make(chan struct{})
	m.queue = append(m.queue, rwWaiter{ch, false})
	m.mu.Unlock()
	<-ch
	Yield("rlock")
}

func (m *RWMutex) RUnlock() {
	m.mu.Lock()
	if m.readers <= 0 {
		m.mu.Unlock()
		panic("vrt: RUnlock of unlocked RWMutex")
	}
	m.readers--
	m.grant()
	m.mu.Unlock()
}

func (m *RWMutex) Lock() {
	m.mu.Lock()
	if !m.writer && m.readers == 0 && len(m.queue) == 0 {
		m.writer = true
		m.mu.Unlock()
		return
	}
	ch := make(chan struct{})
	m.queue = append(m.queue, rwWaiter{ch, true})
	m.mu.Unlock()
	<-ch
	Yield("wlock")
}

func (m *RWMutex) Unlock() {
	m.mu.Lock()
	if !m.writer {
		m.mu.Unlock()
		panic("vrt: Unlock of unlocked RWMutex")
	}
	m.writer = false
	m.grant()
	m.mu.Unlock()
}

// grant hands the lock to queued waiters; m.mu held.
func (m *RWMutex) grant() {
	for len(m.queue) > 0 {
		w := m.queue[0]
		if w.write {
			if m.readers == 0 && !m.writer {
				m.writer = true
				m.queue = m.queue[1:]
				close(w.ch)
			}
			return
		}
		if m.writer {
			return
		}
		m.readers++
		m.queue = m.queue[1:]
		close(w.ch)
	}
}

// RLocker / Locker compatibility
func (m *RWMutex) RLocker() sync.Locker { return (*rlocker)(m) }

type rlocker RWMutex

func (r *rlocker) Lock()   { (*RWMutex)(r).RLock() }
func (r *rlocker) Unlock() { (*RWMutex)(r).RUnlock() }
