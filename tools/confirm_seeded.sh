#!/bin/bash
# Confirms each seeded change in a scratch worktree of /repo: with the patch the
# tree builds and the existing tests pass and the demonstration fails; without it
# the demonstration passes.  Writes the outcome into seeded/<id>/confirm.json.
export GOFLAGS=-mod=mod GOPROXY=off GOSUMDB=off
cd /verif/seeded
for d in ${@:-*/}; do
  id=${d%/}
  [ -f $id/patch.diff ] || continue
  W=/tmp/confirm-$id
  git -C /repo worktree remove --force $W 2>/dev/null
  git -C /repo worktree add -f --detach $W HEAD >/dev/null 2>&1
  res="{"
  (cd $W && git apply /verif/seeded/$id/patch.diff) && applied=true || applied=false
  demo=$(ls /verif/seeded/$id/*_test.go 2>/dev/null | head -1)
  pkg=martian/core
  grep -q "^package syntax" $demo 2>/dev/null && pkg=martian/syntax
  build=$(cd $W && go build ./... >/dev/null 2>&1 && echo true || echo false)
  tests=$(cd $W && go test -vet=off -count=1 ./martian/... ./cmd/... >/tmp/confirm-$id.tests 2>&1 && echo true || echo false)
  cp $demo $W/$pkg/
  run=$(python3 -c "import json;print(json.load(open('/verif/seeded/$id/meta.json')).get('demo_cmd',''))" | sed -n 's/.*-run \([^ ]*\).*/\1/p' | tr -d "'\"")
  [ -z "$run" ] && run=TestSeeded
  withp=$(cd $W && timeout 600 go test -vet=off -count=1 -run "$run" ./$pkg/ >/tmp/confirm-$id.with 2>&1 && echo pass || echo fail)
  (cd $W && git apply -R /verif/seeded/$id/patch.diff)
  without=$(cd $W && timeout 600 go test -vet=off -count=1 -run "$run" ./$pkg/ >/tmp/confirm-$id.without 2>&1 && echo pass || echo fail)
  echo "{\"id\":\"$id\",\"patch_applies\":$applied,\"builds_with_patch\":$build,\"existing_tests_pass_with_patch\":$tests,\"demo_with_patch\":\"$withp\",\"demo_without_patch\":\"$without\",\"demo_run\":\"$run\"}" > /verif/seeded/$id/confirm.json
  cat /verif/seeded/$id/confirm.json
  git -C /repo worktree remove --force $W
  rm -f /tmp/confirm-$id.*
done
