#!/bin/bash
# Determinism self-test: every (profile, seed) is run in several separate
# processes at different GOMAXPROCS; all observable hashes (schedule, complete
# filesystem + process event history, outcome) must agree.
# usage: tools/dettest.sh [seeds-per-profile] [profiles...]
set -e
N=${1:-30}; shift || true
PROFILES=${@:-C01 C04 C05 C06 C12 C14 C15 C10}
D=$(mktemp -d /dev/shm/det-XXXX); trap "rm -rf $D" EXIT
/verif/build.sh $D >/dev/null
fail=0; total=0
for P in $PROFILES; do
  k=0
  for G in 1 4 16 2 8; do
    for rep in 1 2; do
      k=$((k+1))
      GOMAXPROCS=$G $D/mrpsim.test -test.run TestPsim -test.timeout 1h -psim.mode sig -psim.profile $P -psim.n $N -psim.seed 777000 -psim.root $D/w$(printf %02d $k) 2>/dev/null | grep "^SIG" > $D/sig.$P.$k &
    done
  done
  wait
  for f in $D/sig.$P.*; do
    total=$((total+1))
    if ! cmp -s $D/sig.$P.1 $f; then fail=$((fail+1)); echo "DIVERGENCE $P: $f"; diff $D/sig.$P.1 $f | head -5; fi
  done
  echo "$P: $(wc -l < $D/sig.$P.1) cases x 10 processes (GOMAXPROCS 1,4,16,2,8 x2) compared"
done
echo "determinism self-test: $total process logs compared, $fail divergent"
[ $fail = 0 ]
