// Command instrument produces a `go build -overlay` view of martian-lang/martian
// in which every source of nondeterminism that the simulator must own is routed
// through the simulator's seams (see /verif/DESIGN.md section 3).
//
// Nothing in the repository is modified: rewritten copies of the source files are
// written to -out and an overlay.json maps the original paths to them.  The
// rewrites are typed, syntactic rules; they are applied to whatever the working
// tree currently contains, so edited (mutated) trees are instrumented the same way.
package main

import (
	"bytes"
	"encoding/json"
	"flag"
	"fmt"
	"go/ast"
	"go/format"
	"go/token"
	"go/types"
	"os"
	"path/filepath"
	"sort"
	"strconv"
	"strings"

	"golang.org/x/tools/go/ast/astutil"
	"golang.org/x/tools/go/packages"
)

const (
	modPath   = "github.com/martian-lang/martian"
	vrtPath   = modPath + "/martian/verifsim/vrt"
	vosPath   = modPath + "/martian/verifsim/vos"
	vprocPath = modPath + "/martian/verifsim/vproc"
)

// os.X -> vos.X (mutating filesystem calls; each is a gate + fault point).
var osToVos = map[string]bool{
	"WriteFile": true, "Create": true, "OpenFile": true, "Remove": true,
	"RemoveAll": true, "Rename": true, "Symlink": true, "Link": true,
	"Mkdir": true, "MkdirAll": true, "Chmod": true, "Truncate": true,
	"CreateTemp": true, "MkdirTemp": true, "Chtimes": true,
	"Open": true, "ReadFile": true,
}

// os.X -> vproc.X (process seam).
var osToVproc = map[string]bool{
	"Exit": true, "Getpid": true, "FindProcess": true,
}

var unixToVos = map[string]bool{
	"Renameat": true, "Unlinkat": true, "Openat": true,
}

// time.X -> vrt.X
var timeToVrt = map[string]bool{
	"Sleep": true, "NewTimer": true, "After": true, "NewTicker": true,
}

// Functions whose bodies are operating-system probes; they are renamed to
// verifOrig_<name> and a simulator implementation with the original name is
// added to the package from /verif/sim/overlay/<pkg>/.
var sysprobes = map[string]map[string]bool{
	modPath + "/martian/core": {
		"MemInfo.Get":            true,
		"LoadAverage.Get":        true,
		"GetUserProcessCount":    true,
		"GetProcessTreeMemory":   true,
		"GetMaxProcs":            true,
		"CheckMaxVmem":           true,
		"CheckMinimalSpace":      true,
		"GetAvailableSpace":      true,
		"GetMountOptions":        true,
	},
	modPath + "/martian/util": {
		"GetCgroupMemoryLimit": true,
		"LogSysInfo":           true,
	},
}

// Functions which get a vrt.Yield at entry (finer interleavings around shared
// in-memory state).
var entryYields = map[string]map[string]bool{
	modPath + "/martian/core": {
		"ResourceSemaphore.Acquire":      true,
		"ResourceSemaphore.Release":      true,
		"ResourceSemaphore.UpdateActual": true,
		"ResourceSemaphore.UpdateSize":   true,
		"ResourceSemaphore.UpdateFreeUsed": true,
		"MaxJobsSemaphore.Acquire":       true,
		"MaxJobsSemaphore.Release":       true,
		"MaxJobsSemaphore.FindDone":      true,
		"MaxJobsSemaphore.Clear":         true,
		"Fork.partialVdrKill":            true,
		"Pipestance.StepNodes":           true,
		"Pipestance.RefreshState":        true,
	},
}

type stats struct {
	MapRanges       int      `json:"map_ranges_rewritten"`
	MapRangesLabel  int      `json:"map_ranges_label_keyed"`
	GoStmts         int      `json:"go_statements_gated"`
	VosCalls        int      `json:"vos_calls"`
	VprocRefs       int      `json:"vproc_refs"`
	Recvs           int      `json:"channel_receives"`
	Selects         int      `json:"blocking_selects"`
	SelectsDefault  int      `json:"nonblocking_selects_left"`
	Mutexes         int      `json:"mutex_types"`
	TimeCalls       int      `json:"time_calls"`
	Waits           int      `json:"wg_cond_waits"`
	Sysprobes       []string `json:"sysprobes_replaced"`
	EntryYields     int      `json:"entry_yields"`
	Files           int      `json:"files_rewritten"`
	SyncMapUses     int      `json:"sync_map_uses"`
	LabelKeyTypes   []string `json:"label_key_types"`
	UnhandledSends  int      `json:"channel_sends_seen"`
}

var st stats

type fileCtx struct {
	pkg      *packages.Package
	file     *ast.File
	relName  string
	needVrt  bool
	needVos  bool
	needVp   bool
	changed  bool
	counter  int
	labelSet map[string]bool
}

func main() {
	repo := flag.String("repo", "/repo", "repository root")
	out := flag.String("out", "", "output directory")
	simsrc := flag.String("simsrc", "/verif/sim", "simulator sources")
	flag.Parse()
	if *out == "" {
		fmt.Fprintln(os.Stderr, "need -out")
		os.Exit(2)
	}
	gen := filepath.Join(*out, "gen")
	if err := os.MkdirAll(gen, 0755); err != nil {
		die(err)
	}
	cfg := &packages.Config{
		Mode: packages.NeedName | packages.NeedFiles | packages.NeedCompiledGoFiles |
			packages.NeedSyntax | packages.NeedTypes | packages.NeedTypesInfo |
			packages.NeedImports | packages.NeedDeps,
		Dir: *repo,
		Env: append(os.Environ(), "GOFLAGS=-mod=mod", "GOPROXY=off", "GOSUMDB=off"),
	}
	pkgs, err := packages.Load(cfg, "./cmd/mrp", "./martian/core", "./martian/util",
		"./martian/syntax", "./martian/api")
	if err != nil {
		die(err)
	}
	nerr := 0
	for _, p := range pkgs {
		for _, e := range p.Errors {
			fmt.Fprintln(os.Stderr, "load error:", e)
			nerr++
		}
	}
	if nerr > 0 {
		os.Exit(2)
	}
	overlay := map[string]string{}
	labelTypes := map[string]bool{}
	for _, p := range pkgs {
		for i, f := range p.Syntax {
			fname := p.CompiledGoFiles[i]
			if !strings.HasSuffix(fname, ".go") || strings.HasSuffix(fname, "_test.go") {
				continue
			}
			if !strings.HasPrefix(fname, *repo+"/") {
				continue // cgo-generated or cache files
			}
			usesCgo := false
			for _, imp := range f.Imports {
				if imp.Path.Value == `"C"` {
					usesCgo = true
				}
			}
			if usesCgo {
				continue
			}
			rel := strings.TrimPrefix(fname, *repo+"/")
			fc := &fileCtx{pkg: p, file: f, relName: rel, labelSet: labelTypes}
			fc.rewrite()
			if fc.changed {
				if fc.needVrt {
					astutil.AddImport(p.Fset, f, vrtPath)
				}
				if fc.needVos {
					astutil.AddImport(p.Fset, f, vosPath)
				}
				if fc.needVp {
					astutil.AddImport(p.Fset, f, vprocPath)
				}
				for _, imp := range []string{"os", "os/exec", "os/signal", "sync", "time", "runtime", "io/ioutil", "golang.org/x/sys/unix", "syscall"} {
					if !astutil.UsesImport(f, imp) {
						astutil.DeleteImport(p.Fset, f, imp)
					}
				}
				var buf bytes.Buffer
				if err := format.Node(&buf, p.Fset, f); err != nil {
					die(fmt.Errorf("%s: %w", fname, err))
				}
				dst := filepath.Join(gen, strings.ReplaceAll(rel, "/", "__"))
				if err := os.WriteFile(dst, buf.Bytes(), 0644); err != nil {
					die(err)
				}
				overlay[fname] = dst
				st.Files++
			}
		}
	}
	// Simulator packages added under the module path.
	addDir := func(srcDir, dstDir string) {
		ents, err := os.ReadDir(srcDir)
		if err != nil {
			die(err)
		}
		for _, e := range ents {
			if e.IsDir() || !strings.HasSuffix(e.Name(), ".go") {
				continue
			}
			overlay[filepath.Join(dstDir, e.Name())] = filepath.Join(srcDir, e.Name())
		}
	}
	for _, pk := range []string{"vrt", "vos", "vproc", "psim"} {
		addDir(filepath.Join(*simsrc, pk), filepath.Join(*repo, "martian", "verifsim", pk))
	}
	// Files added to existing packages.
	for dir, dst := range map[string]string{
		"overlay/core":   "martian/core",
		"overlay/util":   "martian/util",
		"overlay/syntax": "martian/syntax",
		"overlay/mrp":    "cmd/mrp",
	} {
		src := filepath.Join(*simsrc, dir)
		if _, err := os.Stat(src); err == nil {
			addDir(src, filepath.Join(*repo, dst))
		}
	}
	for t := range labelTypes {
		st.LabelKeyTypes = append(st.LabelKeyTypes, t)
	}
	sort.Strings(st.LabelKeyTypes)
	sort.Strings(st.Sysprobes)
	b, _ := json.MarshalIndent(map[string]interface{}{"Replace": overlay}, "", " ")
	if err := os.WriteFile(filepath.Join(*out, "overlay.json"), b, 0644); err != nil {
		die(err)
	}
	sb, _ := json.MarshalIndent(st, "", " ")
	os.WriteFile(filepath.Join(*out, "instrument_stats.json"), sb, 0644)
	fmt.Println(string(sb))
}

func die(err error) {
	fmt.Fprintln(os.Stderr, "instrument:", err)
	os.Exit(2)
}

func (fc *fileCtx) site(pos token.Pos) *ast.BasicLit {
	p := fc.pkg.Fset.Position(pos)
	return &ast.BasicLit{Kind: token.STRING,
		Value: strconv.Quote(fmt.Sprintf("%s:%d", filepath.Base(fc.relName), p.Line))}
}

func sel(pkg, name string) *ast.SelectorExpr {
	return &ast.SelectorExpr{X: ast.NewIdent(pkg), Sel: ast.NewIdent(name)}
}

// pkgSel returns (import path, name) if e is a qualified identifier pkg.Name.
func (fc *fileCtx) pkgSel(e ast.Expr) (string, string) {
	s, ok := e.(*ast.SelectorExpr)
	if !ok {
		return "", ""
	}
	id, ok := s.X.(*ast.Ident)
	if !ok {
		return "", ""
	}
	if pn, ok := fc.pkg.TypesInfo.Uses[id].(*types.PkgName); ok {
		return pn.Imported().Path(), s.Sel.Name
	}
	return "", ""
}

func (fc *fileCtx) typeOf(e ast.Expr) types.Type {
	return fc.pkg.TypesInfo.TypeOf(e)
}

func isNamed(t types.Type, pkg, name string) bool {
	if t == nil {
		return false
	}
	if p, ok := t.(*types.Pointer); ok {
		t = p.Elem()
	}
	n, ok := t.(*types.Named)
	if !ok {
		return false
	}
	return n.Obj().Pkg() != nil && n.Obj().Pkg().Path() == pkg && n.Obj().Name() == name
}

func funcKey(fd *ast.FuncDecl) string {
	if fd.Recv != nil && len(fd.Recv.List) == 1 {
		t := fd.Recv.List[0].Type
		if s, ok := t.(*ast.StarExpr); ok {
			t = s.X
		}
		if id, ok := t.(*ast.Ident); ok {
			return id.Name + "." + fd.Name.Name
		}
	}
	return fd.Name.Name
}

func (fc *fileCtx) rewrite() {
	pkgPath := fc.pkg.PkgPath
	// Declaration-level rules.
	for _, d := range fc.file.Decls {
		fd, ok := d.(*ast.FuncDecl)
		if !ok || fd.Body == nil {
			continue
		}
		key := funcKey(fd)
		if sysprobes[pkgPath][key] {
			fd.Name = ast.NewIdent("verifOrig_" + fd.Name.Name)
			st.Sysprobes = append(st.Sysprobes, pkgPath[len(modPath)+1:]+"."+key)
			fc.changed = true
			continue
		}
		if pkgPath == modPath+"/cmd/mrp" && fd.Recv == nil && fd.Name.Name == "main" {
			fd.Name = ast.NewIdent("mrpMain")
			fc.changed = true
		}
		if entryYields[pkgPath][key] {
			y := &ast.ExprStmt{X: &ast.CallExpr{Fun: sel("vrt", "Yield"),
				Args: []ast.Expr{&ast.BasicLit{Kind: token.STRING, Value: strconv.Quote(key)}}}}
			fd.Body.List = append([]ast.Stmt{y}, fd.Body.List...)
			fc.needVrt, fc.changed = true, true
			st.EntryYields++
		}
	}

	// Collect comm-clause communication nodes so that their receives are not
	// rewritten to function calls.
	inComm := map[ast.Node]bool{}
	ast.Inspect(fc.file, func(n ast.Node) bool {
		if cc, ok := n.(*ast.CommClause); ok && cc.Comm != nil {
			ast.Inspect(cc.Comm, func(m ast.Node) bool {
				if u, ok := m.(*ast.UnaryExpr); ok && u.Op == token.ARROW {
					inComm[u] = true
				}
				return true
			})
		}
		return true
	})

	astutil.Apply(fc.file, nil, func(c *astutil.Cursor) bool {
		switch n := c.Node().(type) {
		case *ast.SelectorExpr:
			fc.rewriteSelector(c, n)
		case *ast.CallExpr:
			fc.rewriteCall(c, n)
		case *ast.UnaryExpr:
			if n.Op == token.ARROW && !inComm[n] {
				// handled at the statement level for the 2-value form
				if as, ok := c.Parent().(*ast.AssignStmt); ok && len(as.Lhs) == 2 && len(as.Rhs) == 1 {
					c.Replace(&ast.CallExpr{Fun: sel("vrt", "Recv2"), Args: []ast.Expr{fc.site(n.Pos()), n.X}})
				} else {
					c.Replace(&ast.CallExpr{Fun: sel("vrt", "Recv"), Args: []ast.Expr{fc.site(n.Pos()), n.X}})
				}
				fc.needVrt, fc.changed = true, true
				st.Recvs++
			}
		case *ast.SendStmt:
			st.UnhandledSends++
		case *ast.SelectStmt:
			hasDefault := false
			for _, s := range n.Body.List {
				if s.(*ast.CommClause).Comm == nil {
					hasDefault = true
				}
			}
			if hasDefault {
				st.SelectsDefault++
			} else {
				for _, s := range n.Body.List {
					cc := s.(*ast.CommClause)
					y := &ast.ExprStmt{X: &ast.CallExpr{Fun: sel("vrt", "Yield"), Args: []ast.Expr{fc.site(cc.Pos())}}}
					cc.Body = append([]ast.Stmt{y}, cc.Body...)
				}
				fc.needVrt, fc.changed = true, true
				st.Selects++
			}
		case *ast.GoStmt:
			fc.rewriteGo(c, n)
		case *ast.RangeStmt:
			fc.rewriteRange(c, n)
		}
		return true
	})
}

func (fc *fileCtx) rewriteSelector(c *astutil.Cursor, n *ast.SelectorExpr) {
	pkg, name := fc.pkgSel(n)
	switch pkg {
	case "os":
		if osToVos[name] {
			c.Replace(sel("vos", name))
			fc.needVos, fc.changed = true, true
			st.VosCalls++
		} else if osToVproc[name] {
			c.Replace(sel("vproc", name))
			fc.needVp, fc.changed = true, true
			st.VprocRefs++
		} else if name == "Args" {
			c.Replace(&ast.CallExpr{Fun: sel("vproc", "Args")})
			fc.needVp, fc.changed = true, true
			st.VprocRefs++
		}
	case "io/ioutil":
		if name == "WriteFile" || name == "ReadFile" {
			c.Replace(sel("vos", name))
			fc.needVos, fc.changed = true, true
			st.VosCalls++
		}
	case "golang.org/x/sys/unix":
		if unixToVos[name] {
			c.Replace(sel("vos", name))
			fc.needVos, fc.changed = true, true
			st.VosCalls++
		}
	case "os/exec":
		c.Replace(sel("vproc", name))
		fc.needVp, fc.changed = true, true
		st.VprocRefs++
	case "os/signal":
		if name == "Notify" || name == "Ignored" || name == "Stop" {
			c.Replace(sel("vproc", "Signal"+name))
			fc.needVp, fc.changed = true, true
			st.VprocRefs++
		}
	case "sync":
		switch name {
		case "Mutex", "RWMutex", "Cond", "NewCond":
			// (Cond: a broadcast wakes its waiters one at a time, in an order the
			// controller chooses - with sync.Cond they race for the lock)
			c.Replace(sel("vrt", name))
			fc.needVrt, fc.changed = true, true
			st.Mutexes++
		case "Map":
			st.SyncMapUses++
		}
	case "time":
		if timeToVrt[name] {
			c.Replace(sel("vrt", name))
			fc.needVrt, fc.changed = true, true
			st.TimeCalls++
		}
	case "runtime":
		if name == "GC" {
			c.Replace(sel("vrt", "GC"))
			fc.needVrt, fc.changed = true, true
		}
	}
}

func (fc *fileCtx) rewriteCall(c *astutil.Cursor, n *ast.CallExpr) {
	// docopt.Parse(doc, nil, ...) reads the real os.Args: give it the simulated ones.
	if pkg, name := fc.pkgSel(n.Fun); strings.HasSuffix(pkg, "/docopt.go") && name == "Parse" && len(n.Args) >= 2 {
		if id, ok := n.Args[1].(*ast.Ident); ok && id.Name == "nil" {
			n.Args[1] = &ast.SliceExpr{X: &ast.CallExpr{Fun: sel("vproc", "Args")},
				Low: &ast.BasicLit{Kind: token.INT, Value: "1"}}
			fc.needVp, fc.changed = true, true
			st.VprocRefs++
		}
	}
	// time.AfterFunc(d, f) -> vrt.AfterFunc(site, d, f)
	if pkg, name := fc.pkgSel(n.Fun); pkg == "time" && name == "AfterFunc" {
		n.Fun = sel("vrt", "AfterFunc")
		n.Args = append([]ast.Expr{fc.site(n.Pos())}, n.Args...)
		fc.needVrt, fc.changed = true, true
		st.TimeCalls++
		return
	}
	s, ok := n.Fun.(*ast.SelectorExpr)
	if !ok {
		return
	}
	selInfo := fc.pkg.TypesInfo.Selections[s]
	if selInfo == nil {
		return
	}
	recv := selInfo.Recv()
	switch {
	case s.Sel.Name == "Reset" && isNamed(recv, "time", "Timer") && len(n.Args) == 1:
		c.Replace(&ast.CallExpr{Fun: sel("vrt", "ResetTimer"), Args: []ast.Expr{s.X, n.Args[0]}})
		fc.needVrt, fc.changed = true, true
		st.TimeCalls++
	case s.Sel.Name == "Wait" && (isNamed(recv, "sync", "WaitGroup") || isNamed(recv, "sync", "Cond")):
		// x.Wait() -> vrt.AfterWait(site, func() { x.Wait() })  (expression-safe)
		inner := &ast.CallExpr{Fun: n.Fun, Args: n.Args}
		c.Replace(&ast.CallExpr{Fun: sel("vrt", "AfterWait"), Args: []ast.Expr{
			fc.site(n.Pos()),
			&ast.FuncLit{Type: &ast.FuncType{Params: &ast.FieldList{}},
				Body: &ast.BlockStmt{List: []ast.Stmt{&ast.ExprStmt{X: inner}}}},
		}})
		fc.needVrt, fc.changed = true, true
		st.Waits++
	}
}

func (fc *fileCtx) rewriteGo(c *astutil.Cursor, n *ast.GoStmt) {
	fc.counter++
	tv := fmt.Sprintf("verifT%d", fc.counter)
	spawn := &ast.AssignStmt{Lhs: []ast.Expr{ast.NewIdent(tv)}, Tok: token.DEFINE,
		Rhs: []ast.Expr{&ast.CallExpr{Fun: sel("vrt", "Spawn"), Args: []ast.Expr{fc.site(n.Pos())}}}}
	start := &ast.ExprStmt{X: &ast.CallExpr{Fun: sel("vrt", "TaskStart"), Args: []ast.Expr{ast.NewIdent(tv)}}}
	end := &ast.DeferStmt{Call: &ast.CallExpr{Fun: sel("vrt", "TaskEnd"), Args: []ast.Expr{ast.NewIdent(tv)}}}
	stmts := []ast.Stmt{spawn}
	if fl, ok := n.Call.Fun.(*ast.FuncLit); ok {
		fl.Body.List = append([]ast.Stmt{start, end}, fl.Body.List...)
		stmts = append(stmts, n)
	} else {
		// go F(a, b) -> a1, a2 := a, b; go func() { start; defer end; F(a1, a2) }()
		var lhs, rhs, args []ast.Expr
		for i, a := range n.Call.Args {
			v := ast.NewIdent(fmt.Sprintf("%sa%d", tv, i))
			lhs = append(lhs, v)
			rhs = append(rhs, a)
			args = append(args, v)
		}
		if len(lhs) > 0 {
			stmts = append(stmts, &ast.AssignStmt{Lhs: lhs, Tok: token.DEFINE, Rhs: rhs})
		}
		call := &ast.CallExpr{Fun: n.Call.Fun, Args: args, Ellipsis: n.Call.Ellipsis}
		if n.Call.Ellipsis != token.NoPos {
			call.Ellipsis = 1
		}
		n.Call = &ast.CallExpr{Fun: &ast.FuncLit{
			Type: &ast.FuncType{Params: &ast.FieldList{}},
			Body: &ast.BlockStmt{List: []ast.Stmt{start, end, &ast.ExprStmt{X: call}}},
		}}
		stmts = append(stmts, n)
	}
	c.Replace(&ast.BlockStmt{List: stmts})
	fc.needVrt, fc.changed = true, true
	st.GoStmts++
}

func (fc *fileCtx) rewriteRange(c *astutil.Cursor, r *ast.RangeStmt) {
	t := fc.typeOf(r.X)
	if t == nil {
		return
	}
	m, isMap := t.Underlying().(*types.Map)
	if !isMap {
		if _, isChan := t.Underlying().(*types.Chan); isChan {
			die(fmt.Errorf("%s: range over channel is not supported by the instrumenter",
				fc.pkg.Fset.Position(r.Pos())))
		}
		return
	}
	if _, ok := c.Parent().(*ast.LabeledStmt); ok {
		die(fmt.Errorf("%s: labeled range over map is not supported by the instrumenter",
			fc.pkg.Fset.Position(r.Pos())))
	}
	keysFn := "KeysLabeled"
	if kb, ok := m.Key().Underlying().(*types.Basic); ok &&
		kb.Info()&(types.IsString|types.IsInteger|types.IsFloat) != 0 {
		keysFn = "KeysOrdered"
	} else {
		st.MapRangesLabel++
		fc.labelSet[types.TypeString(m.Key(), func(p *types.Package) string { return p.Name() })] = true
	}
	fc.counter++
	mv := fmt.Sprintf("verifM%d", fc.counter)
	kv := fmt.Sprintf("verifK%d", fc.counter)
	okv := fmt.Sprintf("verifOk%d", fc.counter)
	pre := &ast.AssignStmt{Lhs: []ast.Expr{ast.NewIdent(mv)}, Tok: token.DEFINE, Rhs: []ast.Expr{r.X}}
	isBlank := func(e ast.Expr) bool {
		if e == nil {
			return true
		}
		id, ok := e.(*ast.Ident)
		return ok && id.Name == "_"
	}
	tok := r.Tok
	if tok == token.ILLEGAL {
		tok = token.DEFINE
	}
	var body []ast.Stmt
	idx := &ast.IndexExpr{X: ast.NewIdent(mv), Index: ast.NewIdent(kv)}
	if isBlank(r.Value) {
		body = append(body, &ast.AssignStmt{Lhs: []ast.Expr{ast.NewIdent("_"), ast.NewIdent(okv)},
			Tok: token.DEFINE, Rhs: []ast.Expr{idx}})
		body = append(body, &ast.IfStmt{Cond: &ast.UnaryExpr{Op: token.NOT, X: ast.NewIdent(okv)},
			Body: &ast.BlockStmt{List: []ast.Stmt{&ast.BranchStmt{Tok: token.CONTINUE}}}})
	} else if tok == token.DEFINE {
		body = append(body, &ast.AssignStmt{Lhs: []ast.Expr{r.Value, ast.NewIdent(okv)},
			Tok: token.DEFINE, Rhs: []ast.Expr{idx}})
		body = append(body, &ast.IfStmt{Cond: &ast.UnaryExpr{Op: token.NOT, X: ast.NewIdent(okv)},
			Body: &ast.BlockStmt{List: []ast.Stmt{&ast.BranchStmt{Tok: token.CONTINUE}}}})
	} else {
		// for k, v = range m  (assignment form): check presence first, then assign.
		tmp := ast.NewIdent(fmt.Sprintf("verifV%d", fc.counter))
		body = append(body, &ast.AssignStmt{Lhs: []ast.Expr{tmp, ast.NewIdent(okv)},
			Tok: token.DEFINE, Rhs: []ast.Expr{idx}})
		body = append(body, &ast.IfStmt{Cond: &ast.UnaryExpr{Op: token.NOT, X: ast.NewIdent(okv)},
			Body: &ast.BlockStmt{List: []ast.Stmt{&ast.BranchStmt{Tok: token.CONTINUE}}}})
		body = append(body, &ast.AssignStmt{Lhs: []ast.Expr{r.Value}, Tok: token.ASSIGN, Rhs: []ast.Expr{tmp}})
	}
	if !isBlank(r.Key) {
		body = append(body, &ast.AssignStmt{Lhs: []ast.Expr{r.Key}, Tok: tok, Rhs: []ast.Expr{ast.NewIdent(kv)}})
		if tok == token.DEFINE {
			// avoid "declared and not used" when the body never reads the key
			body = append(body, &ast.AssignStmt{Lhs: []ast.Expr{ast.NewIdent("_")}, Tok: token.ASSIGN, Rhs: []ast.Expr{r.Key}})
		}
	}
	body = append(body, r.Body.List...)
	site := fc.site(r.Pos())
	r.Key = ast.NewIdent("_")
	r.Value = ast.NewIdent(kv)
	r.Tok = token.DEFINE
	r.X = &ast.CallExpr{Fun: sel("vrt", keysFn), Args: []ast.Expr{site, ast.NewIdent(mv)}}
	r.Body.List = body
	c.Replace(&ast.BlockStmt{List: []ast.Stmt{pre, r}})
	fc.needVrt, fc.changed = true, true
	st.MapRanges++
}
