#!/bin/bash
# Case-order independence self-test: the cases of one worker share a scratch directory
# and a process; every case is run once inside a long sequence and once alone in a fresh
# process and directory - the signatures (schedule, history, outcome) must agree.
# usage: tools/ordertest.sh [cases-per-profile] [profiles...]
set -e
N=${1:-40}; shift || true
PROFILES=${@:-C01 C04 C05 C06 C10 C11 C12 C13 C14 C15}
D=$(mktemp -d /dev/shm/ord-XXXX); trap "rm -rf $D" EXIT
/verif/build.sh $D >/dev/null
fail=0
for P in $PROFILES; do
  $D/mrpsim.test -test.run TestPsim -test.timeout 1h -psim.mode sig -psim.profile $P -psim.n $N -psim.seed 555000 -psim.root $D/wseq 2>/dev/null | grep "^SIG" | sort > $D/seq.$P
  : > $D/alone.$P
  for i in $(seq 0 $((N-1))); do
    ( $D/mrpsim.test -test.run TestPsim -test.timeout 1h -psim.mode sig -psim.profile $P -psim.n 1 -psim.seed $((555000+i)) -psim.root $D/$(printf "w%03d" $i) 2>/dev/null | grep "^SIG" > $D/al.$P.$i ) &
    if (( i % 14 == 13 )); then wait; fi
  done
  wait
  cat $D/al.$P.* | sort > $D/alone.$P
  rm -rf $D/w[0-9]* $D/al.$P.*
  if cmp -s $D/seq.$P $D/alone.$P; then echo "$P: $N cases, in sequence = alone"; else fail=$((fail+1)); echo "ORDER-DEPENDENCE $P:"; diff $D/seq.$P $D/alone.$P | head -6; fi
done
echo "case-order self-test: $fail profiles with differences"
[ $fail = 0 ]
