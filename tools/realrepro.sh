#!/bin/bash
# realrepro.sh <replay.json>: reproduce the first run of a replay file with the REAL
# (uninstrumented) mrp binary and python stage code.  Used for triage only.
set -e
export GOFLAGS=-mod=mod GOPROXY=off GOSUMDB=off
RP=$(readlink -f $1)
W=$(mktemp -d /dev/shm/real-XXXX)
trap "rm -rf $W" EXIT
SIM=${SIMDIR:-/dev/shm/ov1}
[ -x $SIM/mrpsim.test ] || /verif/build.sh $SIM
mkdir -p $W/inst/bin $W/exp
(cd /repo && go build -o $W/inst/bin/mrp ./cmd/mrp && go build -o $W/inst/bin/mrjob ./cmd/mrjob)
cp -r /repo/jobmanagers $W/inst/jobmanagers; cp -r /repo/adapters $W/inst/adapters
$SIM/mrpsim.test -test.run TestPsim -psim.root $W/w -psim.mode export -psim.replay $RP -psim.out $W/exp > $W/export.log 2>&1 || { tail -20 $W/export.log; exit 2; }
cp /verif/tools/realstage.py $W/exp/
cd $W/exp
FLAGS=$(python3 -c "import json;print(' '.join(f for f in json.load(open('flags.json'))))")
set +e
MROPATH=$W/exp timeout ${REAL_TIMEOUT:-60} $W/inst/bin/mrp pipeline.mro ps --psdir=$W/exp/ps --disable-ui --jobmode=local $FLAGS > $W/mrp.out 2>&1
RC=$?
set -e
echo "=== real mrp exit code: $RC (124 = timeout: never finished)"
tail -${TAILN:-25} $W/mrp.out
echo "=== jobs run by real mrp:"; cat real_jobs.log 2>/dev/null | awk '{print $1,$2,$3,$5}' | sed "s#$W/exp/##"
TOP=$(grep -o "^call [A-Z0-9_]*" pipeline.mro | awk '{print $2}')
echo "=== top outs:"; cat ps/$TOP/fork0/_outs 2>/dev/null | head -40
