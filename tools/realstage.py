#!/usr/bin/env python3
"""Stage code for reproducing a simulated run with the real mrp binary.
argv: realstage.py NAME phase metadata_path files_path run_file
Outputs come from outs_table.json (next to this script): what the simulated job
with the same stage, phase and arguments produced."""
import json, os, sys

def norm(v):
    if isinstance(v, float) and v == int(v): return int(v)
    if isinstance(v, list): return [norm(x) for x in v]
    if isinstance(v, dict): return {k: norm(x) for k, x in v.items() if not k.startswith("__")}
    return v

def canon(v): return json.dumps(norm(v), sort_keys=True, separators=(",", ":"))

def main():
    name, phase, md, files, runfile = sys.argv[1:6]
    here = os.path.dirname(os.path.abspath(__file__))
    def journal(n, content):
        with open(os.path.join(md, "_" + n), "w") as f: f.write(content)
        with open(runfile + "." + ("" if phase == "main" else phase + "_") + n, "w") as f: f.write(content)
    try:
        journal("log", "start\n")
        ji = os.path.join(md, "_jobinfo")
        try:
            j = json.load(open(ji)); j["pid"] = os.getpid()
            json.dump(j, open(ji + ".tmp", "w")); os.rename(ji + ".tmp", ji)
        except Exception: pass
        args = json.load(open(os.path.join(md, "_args")))
        table = json.load(open(os.path.join(here, "outs_table.json")))
        key = canon(args)
        outs = None
        for row in table:
            if row["stage"] == name and row["phase"] == phase and canon(row["args"]) == key:
                outs = row["outs"]; break
        with open(os.path.join(here, "real_jobs.log"), "a") as lg:
            lg.write("%s %s %s %s %s\n" % (name, phase, md, key, "HIT" if outs is not None else "MISS"))
        if phase == "split":
            if outs is None: outs = {"chunks": [], "join": {}}
            with open(os.path.join(md, "_stage_defs"), "w") as f: json.dump(outs, f)
        else:
            if outs is None:
                try: outs = {k: None for k in json.load(open(os.path.join(md, "_outs")))}
                except Exception: outs = {}
            with open(os.path.join(md, "_outs"), "w") as f: json.dump(outs, f)
        journal("complete", "done\n")
    except Exception as ex:
        journal("errors", "realstage failure: %r" % (ex,))

main()
