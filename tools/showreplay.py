#!/usr/bin/env python3
import json,sys
for f in sys.argv[1:]:
    d=json.load(open(f))
    print("=====",f, "minimised" if d.get('minimised') else "ORIGINAL", "plan",len(d.get('plan_tape') or []),"sched",len(d.get('sched_tape') or []))
    print("VIOLATION:", d['violation']['property'], d['violation']['oracle'], d['violation']['msg'][:1500])
    info=d.get('info') or {}
    s=info.get('sample') or {}
    if isinstance(s,dict):
        print(s.get('program',''))
        print('flags',s.get('flags'), 'class', s.get('class'))
        print('\n'.join(s.get('job_history') or []))
        if '-v' in sys.argv: print(s.get('mrp_output_tail',''))
