#!/bin/bash
# Instrumentation soundness: the repository's own test suite must pass when run
# against the instrumented overlay build (seams inactive = pass-through; map
# iteration in ascending, then descending order).
set -e
export GOFLAGS=-mod=mod GOPROXY=off GOSUMDB=off GOTOOLCHAIN=local
D=$(mktemp -d /dev/shm/snd-XXXX); trap "rm -rf $D" EXIT
/verif/build.sh $D >/dev/null
cd /repo
for mode in 0 1; do
  echo "== map order mode $mode"
  VERIF_MAPMODE=$mode go1.26.8 test -vet=off -overlay $D/overlay.json -count=1 -skip TestPsim -json ./martian/... ./cmd/... 2>&1 > $D/out.$mode.json || true
  python3 - $D/out.$mode.json <<'PY'
import json,sys
p=f=0; fails=[]
for l in open(sys.argv[1]):
    try: d=json.loads(l)
    except Exception: continue
    if d.get('Test') and d.get('Action')=='pass': p+=1
    if d.get('Test') and d.get('Action')=='fail': f+=1; fails.append(d['Package'].split('/')[-1]+'::'+d['Test'])
print("tests passed:",p,"failed:",f, fails[:20])
PY
done
