#!/bin/bash
# sweep.sh <tier> <seed...>: run every claimed check for several VERIF_SEED values;
# prints one line per (property, seed) and keeps violation lines.
TIER=$1; shift
cd "$(dirname "$0")/.."
for s in "$@"; do
  for p in ${SWEEP_PROPS:-C01 C02 C03 C04 C05 C06 C10 C11 C12 C13 C14 C15}; do
    t0=$(date +%s)
    VERIF_SEED=$s ./check $p --tier $TIER > /tmp/sweep.$$.log 2>&1
    rc=$?
    echo "seed=$s $p rc=$rc $(( $(date +%s) - t0 ))s $(grep -c '^KNOWN-FINDING' /tmp/sweep.$$.log) known, $(grep -c '^OBSERVATION' /tmp/sweep.$$.log) obs; $(grep "^$p " /tmp/sweep.$$.log | cut -c1-160)"
    if [ $rc != 0 ]; then grep -v "^KNOWN-FINDING\|^OBSERVATION" /tmp/sweep.$$.log | cut -c1-1200 | tail -12; mkdir -p sweep_replays; cp replays/$p/*seed${s}0*.json sweep_replays/ 2>/dev/null; fi
  done
done
rm -f /tmp/sweep.$$.log
