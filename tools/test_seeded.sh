#!/bin/bash
# test_seeded.sh <id>...: applies each seeded change to /repo's working tree, runs the
# quick check of its property, restores the tree.  Prints whether the check caught it.
cd /verif
for id in "$@"; do
  prop=${id%%-*}
  if ! git -C /repo apply /verif/seeded/$id/patch.diff 2>/tmp/apply.err; then echo "$id: patch does not apply: $(head -1 /tmp/apply.err)"; continue; fi
  out=$(./check $prop ${TIER:+--tier $TIER} 2>&1); rc=$?
  git -C /repo checkout -- .
  echo "$id: rc=$rc $(echo "$out" | grep -c '^VIOLATION') violation lines; first: $(echo "$out" | grep -m1 'violation: oracle=' | cut -c1-260)"
done
