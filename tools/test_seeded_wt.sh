#!/bin/bash
# test_seeded_wt.sh <id>...: like test_seeded.sh, but applies each seeded change in a
# scratch worktree of /repo (VERIF_REPO) so that /repo's working tree stays untouched.
# Evidence files written by these runs describe the changed tree: refresh them afterwards.
cd /verif
for id in "$@"; do
  prop=${CHECK:-${id%%-*}}
  W=/tmp/ts-$id
  git -C /repo worktree remove --force $W 2>/dev/null
  git -C /repo worktree add -f --detach $W HEAD >/dev/null 2>&1
  if ! git -C $W apply /verif/seeded/$id/patch.diff 2>/tmp/apply-$id.err; then echo "$id: patch does not apply: $(head -1 /tmp/apply-$id.err)"; git -C /repo worktree remove --force $W; continue; fi
  out=$(VERIF_REPO=$W ./check $prop ${TIER:+--tier $TIER} 2>&1); rc=$?
  git -C /repo worktree remove --force $W
  echo "$id [$prop]: rc=$rc $(echo "$out" | grep -c '^VIOLATION') violation lines; first: $(echo "$out" | grep -m1 'violation: oracle=' | cut -c1-260)"
done
