#!/bin/bash
# thorough.sh <property...>: run the thorough tier of the given checks one after the other
cd "$(dirname "$0")/.."
for p in "$@"; do
  t0=$(date +%s)
  ./check $p --tier thorough > /tmp/thorough.$$.log 2>&1
  rc=$?
  echo "thorough $p rc=$rc $(( $(date +%s) - t0 ))s $(grep -c '^KNOWN-FINDING' /tmp/thorough.$$.log) known, $(grep -c '^OBSERVATION' /tmp/thorough.$$.log) obs; $(grep "^$p " /tmp/thorough.$$.log | cut -c1-300)"
  if [ $rc != 0 ]; then grep -v "^KNOWN-FINDING\|^OBSERVATION" /tmp/thorough.$$.log | cut -c1-1500 | tail -40; mkdir -p sweep_replays; cp replays/$p/*.json sweep_replays/ 2>/dev/null; fi
done
rm -f /tmp/thorough.$$.log
